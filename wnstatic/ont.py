"""ONT — order-nondeterminism taint.

Abstract kinds of a value with respect to Python's hash seed:
  CLEAN   order/content independent of the seed
  SET     a set/frozenset (content fixed, iteration order seed dependent; order not yet observed)
  HOLD    a container whose own order is fine but which holds a seed-ordered value somewhere inside
  ORDDICT a dict whose key order was produced by iterating a SET / ORD value
  ORDSEQ  a list/tuple/generator/str whose element order was produced that way

Each tainted value carries its *roots*: the order-observing uses (iteration of a set, list(set), ...) that
produced it.  Interprocedural: functions are analysed per vector of argument kinds (memoised), parameter kinds
are joined over all call sites to a fixpoint, attributes are tracked by name."""
from __future__ import annotations
import ast
from .src import norm, walk_no_nested
from .consts import module_consts

CLEAN, SET, HOLD, ORDDICT, ORDSEQ = 'clean', 'SET', 'HOLD', 'ORD[dict]', 'ORD[seq]'
RANK = {CLEAN: 0, SET: 1, HOLD: 2, ORDDICT: 3, ORDSEQ: 4}
ORDS = (ORDDICT, ORDSEQ)
TAINTED = (HOLD, ORDDICT, ORDSEQ)

PASS_SEQ = {'list', 'tuple', 'iter', 'reversed', 'enumerate', 'zip', 'map', 'filter', 'chain', 'islice',
            'groupby', 'starmap', 'accumulate', 'zip_longest', 'deque'}
PASS_DICT = {'dict', 'Counter', 'OrderedDict', 'defaultdict'}
SANITIZE = {'set', 'frozenset', 'len', 'sum', 'any', 'all', 'bool', 'isinstance', 'id', 'hash', 'int', 'float',
            'abs', 'round', 'callable', 'type', 'hasattr', 'getattr'}
SET_ANN = {'set', 'Set', 'frozenset', 'FrozenSet', 'AbstractSet', 'MutableSet'}


class V:
    """kind + roots; `elem` says that the elements are still-unobserved sets:
    VALSET (dict whose values are sets), ELSET (sequence of sets), PAIRSET (sequence of (key, set) pairs)."""
    __slots__ = ('kind', 'roots', 'elem')

    def __init__(self, kind=CLEAN, roots=frozenset(), elem=None):
        self.kind, self.roots, self.elem = kind, roots, elem

    def __repr__(self):
        return f'{self.kind}{sorted(self.roots) if self.roots else ""}{"/" + self.elem if self.elem else ""}'

    def __eq__(self, o):
        return isinstance(o, V) and self.kind == o.kind and self.roots == o.roots and self.elem == o.elem

    def __hash__(self):
        return hash((self.kind, self.roots, self.elem))


VCLEAN = V()


def join(*vs):
    kind = CLEAN
    roots = frozenset()
    elem = None
    for v in vs:
        if v is None:
            continue
        if RANK[v.kind] > RANK[kind]:
            kind = v.kind
        roots |= v.roots
        if v.elem is not None and elem is None:
            elem = v.elem
    if kind == CLEAN and elem is None:
        return VCLEAN
    if kind == SET:
        return V(SET, frozenset(), elem)
    return V(kind, roots if kind != CLEAN else frozenset(), elem)


def with_elem(v, elem):
    return V(v.kind, v.roots, elem)


def ann_elem(a, repo=None, mod=None, depth=0):
    """VALSET / ELSET for annotations like dict[str, set[str]] / list[set[str]] (aliases resolved by name)."""
    if a is None or depth > 4:
        return None
    if isinstance(a, ast.Constant) and isinstance(a.value, str):
        try:
            a = ast.parse(a.value, mode='eval').body
        except SyntaxError:
            return None
    if isinstance(a, ast.Subscript):
        head = norm(a.value).split('.')[-1]
        args = a.slice.elts if isinstance(a.slice, ast.Tuple) else [a.slice]
        if head in ('dict', 'Dict', 'Mapping', 'MutableMapping', 'defaultdict') and len(args) == 2:
            if ann_is_set(args[1]):
                return 'VALSET'
            return None
        if head in ('list', 'List', 'Sequence', 'Iterable', 'Iterator', 'tuple', 'Tuple') and args and ann_is_set(args[0]):
            return 'ELSET'
        if head == 'Optional':
            return ann_elem(args[0], repo, mod, depth + 1)
        return None
    if isinstance(a, (ast.Name, ast.Attribute)) and repo is not None and mod is not None:
        name = a.id if isinstance(a, ast.Name) else a.attr
        target_mod = mod
        if isinstance(a, ast.Name):
            imp = mod.imports.get(name)
            if imp and imp[0] == 'obj' and imp[1] in repo.modules:
                target_mod, name = repo.modules[imp[1]], imp[2]
        else:
            imp = mod.imports.get(norm(a.value))
            if imp and imp[0] == 'mod' and imp[1] in repo.modules:
                target_mod = repo.modules[imp[1]]
        for n in target_mod.tree.body:
            if isinstance(n, ast.Assign) and any(isinstance(t, ast.Name) and t.id == name for t in n.targets):
                return ann_elem(n.value, repo, target_mod, depth + 1)
    return None


def ann_is_set(a):
    if a is None:
        return False
    s = norm(a).strip('\'"')
    head = s.split('[')[0].split('.')[-1]
    return head in SET_ANN


def ann_holds_set(a):
    """dict[..., set[...]] style annotation (e.g. LemmatizeResult): values are sets."""
    if a is None:
        return False
    return False


STR_PASS = {'split', 'rsplit', 'splitlines', 'strip', 'lstrip', 'rstrip', 'lower', 'upper', 'casefold', 'title', 'replace',
            'encode', 'decode', 'expandtabs', 'partition', 'rpartition', 'removeprefix', 'removesuffix', 'center', 'ljust', 'rjust'}


class Sink:
    __slots__ = ('kind', 'func', 'node', 'what', 'roots', 'detail')

    def __init__(self, kind, func, node, what, roots, detail=''):
        self.kind, self.func, self.node, self.what, self.roots, self.detail = kind, func, node, what, roots, detail


class FuncState:
    def __init__(self, an, func, argkinds):
        self.an = an
        self.func = func
        self.mod = func.module
        self.env: dict[str, V] = {}
        self.ret = VCLEAN
        self.ret_tuple = None      # per-position kinds when every return is a tuple display of one length; False otherwise
        self.sinks: list[Sink] = []
        self.changed = False
        params = func.params
        for i, p in enumerate(func.param_nodes()):
            v = argkinds[i] if i < len(argkinds) else VCLEAN
            if ann_is_set(p.annotation):
                v = join(v, V(SET))
            el = ann_elem(p.annotation, an.repo, func.module)
            if el:
                v = with_elem(v, el)
            self.env[p.arg] = v

    # ------------------------------------------------------------------
    def root(self, node, what):
        return frozenset({f'{self.func.key}: {what} `{norm(node)[:70]}`'})

    def setenv(self, name, v):
        old = self.env.get(name, VCLEAN)
        new = join(old, v)
        if new != old:
            self.env[name] = new
            self.changed = True

    def sink(self, kind, node, what, v, detail=''):
        self.sinks.append(Sink(kind, self.func, node, what, v.roots, detail))

    def observe(self, v, node, what):
        """order-observing use of v: result is ORDSEQ rooted here if v is a SET, or v's own roots if ORD."""
        if v.kind == SET:
            return V(ORDSEQ, self.root(node, what))
        if v.kind in ORDS:
            return V(ORDSEQ, v.roots)
        if v.kind == HOLD:
            return v
        return VCLEAN

    # -- expressions ---------------------------------------------------------
    def kind(self, e, tl=None) -> V:
        an = self.an
        if e is None:
            return VCLEAN
        if isinstance(e, ast.Constant):
            return VCLEAN
        if isinstance(e, (ast.Set,)):
            for x in e.elts:
                self.kind(x, tl)
            return V(SET)
        if isinstance(e, ast.SetComp):
            self._comp(e, tl)
            return V(SET)
        if isinstance(e, ast.Name):
            if e.id in self.env:
                return self.env[e.id]
            return an.global_kind(self.mod, e.id)
        if isinstance(e, ast.Attribute):
            base = self.kind(e.value, tl)
            a = an.attr_kinds.get(e.attr, VCLEAN)
            if base.kind in TAINTED and a.kind == CLEAN:
                return V(HOLD, base.roots) if base.kind != CLEAN else VCLEAN
            return a
        if isinstance(e, ast.BinOp):
            l, r = self.kind(e.left, tl), self.kind(e.right, tl)
            if isinstance(e.op, (ast.BitOr, ast.BitAnd, ast.Sub, ast.BitXor)) and SET in (l.kind, r.kind) \
                    and l.kind in (SET, CLEAN) and r.kind in (SET, CLEAN):
                return V(SET)
            if isinstance(e.op, (ast.BitOr, ast.BitAnd, ast.Sub, ast.BitXor)) and any(
                    isinstance(x, ast.Call) and isinstance(x.func, ast.Attribute) and x.func.attr in ('keys', 'items') and not x.args
                    for x in (e.left, e.right)):
                # set algebra on dictionary views (d.keys() & other) yields a set: iteration order follows the hashes
                return V(SET)
            if isinstance(e.op, (ast.Add, ast.Mult, ast.Mod)):
                if l.kind == SET or r.kind == SET:
                    # str % set, list + list(set) handled elsewhere; set arithmetic is not defined for +
                    return join(V(l.kind if l.kind != SET else CLEAN, l.roots), V(r.kind if r.kind != SET else CLEAN, r.roots))
                return join(l, r)
            return join(V(CLEAN), l if l.kind in TAINTED else None, r if r.kind in TAINTED else None)
        if isinstance(e, (ast.ListComp, ast.GeneratorExp, ast.DictComp)):
            return self._comp(e, tl)
        if isinstance(e, ast.IfExp):
            self.kind(e.test, tl)
            return join(self.kind(e.body, tl), self.kind(e.orelse, tl))
        if isinstance(e, ast.BoolOp):
            return join(*[self.kind(v, tl) for v in e.values])
        if isinstance(e, ast.UnaryOp):
            self.kind(e.operand, tl)
            return VCLEAN
        if isinstance(e, ast.Compare):
            self.kind(e.left, tl)
            for c in e.comparators:
                self.kind(c, tl)
            return VCLEAN
        if isinstance(e, ast.Starred):
            v = self.kind(e.value, tl)
            return self.observe(v, e, 'unpacking of a set')
        if isinstance(e, (ast.Tuple, ast.List)):
            vs = []
            for x in e.elts:
                v = self.kind(x, tl)
                if isinstance(x, ast.Starred):
                    vs.append(v)
                elif v.kind in TAINTED:
                    vs.append(V(HOLD, v.roots))
                elif v.kind == SET:
                    vs.append(V(CLEAN, frozenset(), 'ELSET'))   # a set stored as an element: order still unobserved
            return join(*vs) if vs else VCLEAN
        if isinstance(e, ast.Dict):
            vs = []
            for k, x in zip(e.keys, e.values):
                if k is not None:
                    self.kind(k, tl)
                v = self.kind(x, tl)
                if k is None:
                    vs.append(v if v.kind in ORDS else VCLEAN)
                elif v.kind in TAINTED:
                    vs.append(V(HOLD, v.roots))
                elif v.kind == SET:
                    vs.append(V(CLEAN, frozenset(), 'VALSET'))
            return join(*vs) if vs else VCLEAN
        if isinstance(e, ast.JoinedStr):
            vs = []
            for x in e.values:
                if isinstance(x, ast.FormattedValue):
                    v = self.kind(x.value, tl)
                    if v.kind == SET:
                        vs.append(V(ORDSEQ, self.root(x.value, 'text formatting of a set')))
                    elif v.kind in TAINTED:
                        vs.append(V(ORDSEQ, v.roots))
            return join(*vs) if vs else VCLEAN
        if isinstance(e, ast.Subscript):
            base = self.kind(e.value, tl)
            self.kind(e.slice, tl) if not isinstance(e.slice, ast.Slice) else None
            if base.kind == ORDSEQ:
                if isinstance(e.slice, ast.Slice):
                    return base
                self.sink('select', e, 'order-selected element (index into a seed-ordered sequence)', base)
                return VCLEAN
            if base.elem in ('VALSET', 'ELSET') and not isinstance(e.slice, ast.Slice):
                return join(V(SET), V(HOLD, base.roots) if base.kind == HOLD else None)
            if base.kind == HOLD:
                return V(HOLD, base.roots)
            if isinstance(e.slice, ast.Slice) and base.elem:
                return V(CLEAN, frozenset(), base.elem)
            return VCLEAN   # a lookup by key in an ORD[dict] does not observe its order
        if isinstance(e, ast.Call):
            return self._call(e, tl)
        if isinstance(e, ast.Lambda):
            return VCLEAN
        if isinstance(e, (ast.Yield, ast.YieldFrom)):
            self._yield(e, tl)
            return VCLEAN
        if isinstance(e, ast.NamedExpr):
            v = self.kind(e.value, tl)
            if isinstance(e.target, ast.Name):
                self.setenv(e.target.id, v)
            return v
        if isinstance(e, ast.Await):
            return self.kind(e.value, tl)
        for c in ast.iter_child_nodes(e):
            if isinstance(c, ast.expr):
                self.kind(c, tl)
        return VCLEAN

    def _comp(self, e, tl):
        src = []
        saved = dict(self.env)
        inner_tl = set(tl or ())
        tainted_loop = False
        for g in e.generators:
            iv = self.kind(g.iter, tl)
            lv = {n.id for n in ast.walk(g.target) if isinstance(n, ast.Name)}
            ov = self.observe(iv, g.iter, 'iteration of a set')
            if iv.kind == SET or iv.kind in ORDS:
                src.append(ov)
                tainted_loop = True
                inner_tl |= lv
            elem = V(HOLD, iv.roots) if iv.kind in TAINTED else VCLEAN
            for n in lv:
                self.env[n] = elem
            self._bind_elem(g.target, iv, elem)
            for c in g.ifs:
                self.kind(c, inner_tl if tainted_loop else tl)
        t2 = inner_tl if tainted_loop else tl
        if isinstance(e, ast.DictComp):
            self.kind(e.key, t2)
            ev = self.kind(e.value, t2)
        else:
            ev = self.kind(e.elt, t2)
        for k in list(self.env):
            if k not in saved:
                del self.env[k]
            else:
                self.env[k] = saved[k]
        out = join(*src) if src else VCLEAN
        if out.kind in ORDS:
            out = V(ORDDICT if isinstance(e, ast.DictComp) else ORDSEQ, out.roots)
        if isinstance(e, ast.SetComp):
            return V(SET)
        if ev.kind in TAINTED:
            out = join(out, V(HOLD, ev.roots))
        if ev.kind == SET:
            out = with_elem(out, 'VALSET' if isinstance(e, ast.DictComp) else 'ELSET')
        return out

    def _bind_elem(self, target, iv, base):
        """loop-variable kinds when iterating a container whose elements are (still unobserved) sets."""
        if iv.elem == 'ELSET':
            for n in ast.walk(target):
                if isinstance(n, ast.Name):
                    self.env[n.id] = join(base, V(SET))
        elif iv.elem == 'PAIRSET' and isinstance(target, (ast.Tuple, ast.List)) and len(target.elts) == 2:
            for n in ast.walk(target.elts[1]):
                if isinstance(n, ast.Name):
                    self.env[n.id] = join(base, V(SET))
        elif iv.elem == 'PAIRSET':
            for n in ast.walk(target):
                if isinstance(n, ast.Name):
                    self.env[n.id] = with_elem(base, 'ELSET')

    def _call(self, e, tl):
        an = self.an
        f = e.func
        name = f.id if isinstance(f, ast.Name) else f.attr if isinstance(f, ast.Attribute) else ''
        argv = [self.kind(a, tl) for a in e.args]
        kwv = {k.arg: self.kind(k.value, tl) for k in e.keywords}
        haskey = 'key' in kwv
        first = argv[0] if argv else VCLEAN
        allv = argv + list(kwv.values())

        if isinstance(f, ast.Name) and f.id not in self.env:
            if name in ('sorted', 'min', 'max') and not haskey and len(e.args) == 1 and (first.kind == SET or first.kind in ORDS):
                # keyless ordering of a seed-ordered collection: sound only when the elements are totally ordered (C16-R7)
                an.keyless_orderings[(self.func.key, norm(e))] = (self.func, e)
            if name == 'sorted':
                if haskey and (first.kind == SET or first.kind in ORDS):
                    return self.observe(first, e, 'sorted(key=...) over a set (ties keep the input order)')
                out = V(HOLD, first.roots) if first.kind == HOLD else VCLEAN
                return with_elem(out, first.elem) if first.elem in ('ELSET', 'PAIRSET') else out
            if name in ('min', 'max'):
                cand = first if len(e.args) == 1 else join(*argv)
                if haskey and (cand.kind == SET or cand.kind in ORDS):
                    ov = self.observe(cand, e, f'{name}(key=...) over a set')
                    self.sink('select', e, f'order-selected element: {name}(key=...) picks the first of tied candidates', ov)
                return VCLEAN
            if name == 'next':
                if first.kind == SET or first.kind in ORDS:
                    ov = self.observe(first, e, 'next() over a set')
                    self.sink('select', e, 'order-selected element: next() of a seed-ordered iterator', ov)
                return VCLEAN
            if name in ('set', 'frozenset'):
                return V(SET)
            if name in SANITIZE:
                return VCLEAN
            if name in ('str', 'repr', 'format', 'print'):
                if name == 'print':
                    is_file = 'file' in kwv
                    for a, v in zip(e.args, argv):
                        if v.kind == SET or v.kind in TAINTED:
                            ov = self.observe(v, a, 'printing a set')
                            if is_file:
                                self.sink('output', e, 'seed-ordered text written to a file', ov)
                    if tl and is_file:
                        pass
                    return VCLEAN
                if first.kind == SET or first.kind in TAINTED:
                    return self.observe(first, e, f'{name}() of a set')
                return VCLEAN
            if name in PASS_SEQ:
                vs = [self.observe(v, e, f'{name}() over a set') for v in allv if v.kind == SET or v.kind in TAINTED]
                out = join(*vs) if vs else VCLEAN
                els = [v.elem for v in allv if v.elem in ('ELSET', 'PAIRSET')]
                return with_elem(out, els[0]) if els and name in ('list', 'tuple', 'iter', 'reversed') else out
            if name in PASS_DICT:
                vs = [self.observe(v, e, f'{name}() over a set') for v in allv if v.kind == SET or v.kind in TAINTED]
                out = join(*vs) if vs else VCLEAN
                return V(ORDDICT, out.roots) if out.kind in ORDS else out
        if isinstance(f, ast.Attribute):
            rv = self.kind(f.value, tl)
            if rv.kind == SET:
                if f.attr in ('intersection', 'union', 'difference', 'symmetric_difference', 'copy'):
                    return V(SET)
                if f.attr == 'pop':
                    ov = self.observe(rv, e, 'set.pop()')
                    self.sink('select', e, 'order-selected element: set.pop()', ov)
                    return VCLEAN
                if f.attr in ('add', 'update', 'discard', 'remove', 'clear', 'issubset', 'issuperset', 'isdisjoint',
                              'intersection_update', 'difference_update'):
                    return VCLEAN
            if f.attr in ('items', 'keys', 'values'):
                el = None
                if rv.elem == 'VALSET' and f.attr != 'keys':
                    el = 'PAIRSET' if f.attr == 'items' else 'ELSET'
                if rv.kind == ORDDICT:
                    return V(ORDSEQ, rv.roots, el)
                if rv.kind == HOLD:
                    return with_elem(rv, el)
                return V(CLEAN, frozenset(), el) if el else VCLEAN
            if f.attr == 'join' and argv:
                if first.kind == SET or first.kind in TAINTED:
                    return self.observe(first, e, 'str.join over a set')
                return VCLEAN
            if f.attr in ('get', 'pop') and rv.kind != SET:
                vs = [V(HOLD, rv.roots) if rv.kind == HOLD else None] + [v for v in argv[1:]]
                if rv.elem == 'VALSET':
                    vs.append(V(SET))
                return join(*[v for v in vs if v is not None])
            if f.attr in ('copy',) and rv.kind in TAINTED:
                return rv
            if f.attr in STR_PASS and rv.kind in ORDS:
                # text built in a seed-dependent order stays seed-ordered through str methods (split() gives its parts back)
                return V(ORDSEQ, rv.roots)
            if f.attr == 'warn' and norm(f.value) == 'warnings' and argv and (first.kind in ORDS or first.kind == SET):
                self.sink('output', e, 'seed-ordered text emitted as a warning', self.observe(first, e, 'warning text'))
                return VCLEAN
            if f.attr in ('format',):
                vs = [self.observe(v, e, 'text formatting of a set') for v in allv if v.kind == SET or v.kind in TAINTED]
                return join(*vs) if vs else VCLEAN
            if f.attr in ('write', 'writelines') and argv:
                if first.kind == SET or first.kind in TAINTED:
                    self.sink('output', e, 'seed-ordered text written to a file', self.observe(first, e, 'write of a set'))
                return VCLEAN
            if f.attr in ('execute', 'executemany', 'executescript'):
                self._sql_sink(e, tl)
                return VCLEAN
            if f.attr == 'setdefault' and tl and not self.depends(f.value, tl) and rv.kind != SET:
                # key insertion order of the receiver follows the (seed-ordered) loop
                r = self.root_name(f.value)
                if r:
                    self.setenv(r, V(ORDDICT, self.loop_roots))
            if f.attr == 'setdefault' and len(argv) == 2 and (argv[1].kind == SET or rv.elem == 'VALSET'):
                r = self.root_name(f.value)
                if r and argv[1].kind == SET:
                    self.setenv(r, V(CLEAN, frozenset(), 'VALSET'))
                return join(V(SET), V(HOLD, rv.roots) if rv.kind in TAINTED else None)
            if f.attr == 'setdefault' and len(argv) == 2:
                return join(V(HOLD, rv.roots) if rv.kind in TAINTED else None, argv[1] if argv[1].kind != SET else None) \
                    if (rv.kind in TAINTED or argv[1].kind in TAINTED) else (V(SET) if argv[1].kind == SET else VCLEAN)
        # repository functions
        callees = an.cg.resolve_call(self.func, e) if (isinstance(f, ast.Name) and f.id not in self.env) or isinstance(f, ast.Attribute) else []
        if isinstance(f, ast.Name) and f.id in self.func.params:
            callees = an.cg.resolve_call(self.func, e)
        if callees:
            outs = []
            tuples = []
            for c in callees:
                if c.name in ('__init__', '__new__'):
                    tuples.append(False)
                    an.note_call(c, self._bind_args(c, e, argv, kwv, ctor=True))
                    held = [v for v in allv if v.kind in TAINTED]
                    outs.append(V(HOLD, join(*held).roots) if held else VCLEAN)
                    continue
                bound = self._bind_args(c, e, argv, kwv)
                an.note_call(c, bound)
                outs.append(an.summary(c, bound))
                stc = an._memo.get((c.key, bound))
                tuples.append(stc.ret_tuple if stc is not None and not (c.node.returns is not None and ann_is_set(c.node.returns)) else False)
            if tuples and all(isinstance(t, list) for t in tuples) and len({len(t) for t in tuples}) == 1:
                an.tuple_results[id(e)] = [join(*col) for col in zip(*tuples)]
            else:
                an.tuple_results.pop(id(e), None)
            return join(*outs)
        # unknown external callable: pass-through for itertools-like names already handled; otherwise clean
        if name in an.output_params:
            pass
        return VCLEAN

    def _bind_args(self, callee, call, argv, kwv, ctor=False):
        params = callee.params
        skip = 1 if callee.cls is not None and params and params[0] in ('self', 'cls') else 0
        f = call.func
        out = [VCLEAN] * len(params)
        if skip and isinstance(f, ast.Attribute):
            pass
        i = skip
        for a, v in zip(call.args, argv):
            if isinstance(a, ast.Starred):
                break
            if i < len(params):
                out[i] = v
            i += 1
        for k, v in kwv.items():
            if k in params:
                out[params.index(k)] = v
        return tuple(out)

    def _yield(self, e, tl):
        if e.value is not None:
            v = self.kind(e.value, tl)
            if isinstance(e, ast.YieldFrom):
                ov = self.observe(v, e.value, 'yield from a set')
                if ov.kind != CLEAN:
                    self.set_ret(ov)
            elif v.kind in TAINTED:
                self.set_ret(V(HOLD, v.roots))
        if tl:
            self.set_ret(V(ORDSEQ, self.loop_roots))

    def set_ret(self, v):
        new = join(self.ret, v)
        if new != self.ret:
            self.ret = new
            self.changed = True

    def _sql_sink(self, e, tl):
        an = self.an
        if len(e.args) < 2:
            return
        pv = self.kind(e.args[1], tl)
        site = an.site_by_node.get(id(e))
        if e.func.attr == 'executemany':
            if pv.kind in ORDS:
                self.sink('sql', e, 'rows are inserted in a seed-dependent order (rowids and unordered result order follow it)', pv)
            return
        if site is None:
            if pv.kind in ORDS or pv.kind == SET:
                self.sink('sql', e, 'seed-ordered bind parameters for an unresolved statement', self.observe(pv, e, 'bind'))
            return
        for v in site.variants:
            if v.params[0] != 'pos' or v.stmt is None:
                continue
            groups = {}
            for ph in v.stmt.placeholders:
                if ph.kind == 'many':
                    groups.setdefault(ph.name, []).append(ph.context)
            for kind, text in v.params[1]:
                if kind != 'many':
                    continue
                try:
                    node = ast.parse(text, mode='eval').body
                except SyntaxError:
                    continue
                gv = self.kind(node, tl)
                if gv.kind == SET or gv.kind in ORDS:
                    ctxs = groups.get(text, ['?'])
                    if not all(c in ('in-list', 'in-cte') for c in ctxs):
                        self.sink('sql', e, f'seed-ordered sequence `{text}` bound to placeholders whose position matters '
                                            f'({ctxs})', self.observe(gv, node, 'bind parameters from a set'))

    # -- statements ----------------------------------------------------------
    loop_roots = frozenset()

    def depends(self, e, names):
        return any(isinstance(n, ast.Name) and n.id in names for n in ast.walk(e))

    def root_name(self, e):
        while isinstance(e, (ast.Subscript, ast.Attribute, ast.Call)):
            e = e.value if not isinstance(e, ast.Call) else e.func
        return e.id if isinstance(e, ast.Name) else None

    def block(self, stmts, tl):
        for s in stmts:
            self.stmt(s, tl)

    def assign_target(self, t, v, tl, value_node=None):
        if isinstance(t, ast.Name):
            self.setenv(t.id, v)
        elif isinstance(t, (ast.Tuple, ast.List)):
            if v.kind == SET or v.kind in ORDS:
                ov = self.observe(v, value_node or t, 'unpacking')
                self.sink('select', t, 'order-selected element: unpacking of a seed-ordered value', ov)
                ev = VCLEAN
            else:
                ev = v
            for x in t.elts:
                self.assign_target(x.value if isinstance(x, ast.Starred) else x, ev, tl)
        elif isinstance(t, ast.Attribute):
            if v.kind != CLEAN:
                old = self.an.attr_kinds.get(t.attr, VCLEAN)
                new = join(old, v)
                if new != old:
                    self.an.attr_kinds[t.attr] = new
                    self.an.attr_changed = True
        elif isinstance(t, ast.Subscript):
            self.kind(t.slice, tl) if not isinstance(t.slice, ast.Slice) else None
            r = self.root_name(t.value)
            if tl and not self.depends(t.value, tl) and r:
                self.setenv(r, V(ORDDICT, self.loop_roots))
            if v.kind in TAINTED and r:
                self.setenv(r, V(HOLD, v.roots))
                if '<locals>' in self.func.qualname and r in self.func.params:
                    # a callback (handler closure) stores a seed-ordered value into an object it was handed: nobody calls the
                    # closure statically, so the value cannot be followed further - it is in the structure the enclosing API returns
                    self.sink('escape', t, 'seed-ordered value stored into an argument of a handler closure (part of the structure the '
                                           'enclosing function builds)', v)
            if v.kind == SET and r and isinstance(t.value, ast.Name):
                self.setenv(r, V(CLEAN, frozenset(), 'VALSET'))

    def stmt(self, s, tl):
        if isinstance(s, ast.Assign):
            v = self.kind(s.value, tl)
            per_pos = self.an.tuple_results.get(id(s.value)) if isinstance(s.value, ast.Call) else None
            if isinstance(s.value, ast.Tuple) and not any(isinstance(x, ast.Starred) for x in s.value.elts):
                per_pos = [self.kind(x, tl) for x in s.value.elts]       # `a, b = (x, y)`
            for t in s.targets:
                if per_pos is not None and isinstance(t, (ast.Tuple, ast.List)) and len(t.elts) == len(per_pos) \
                        and not any(isinstance(x, ast.Starred) for x in t.elts):
                    # `a, b, c = f(..)` where every return of f is a tuple display: position by position
                    for x, pv in zip(t.elts, per_pos):
                        self.assign_target(x, pv, tl)
                    continue
                self.assign_target(t, v, tl, s.value)
        elif isinstance(s, ast.AnnAssign):
            v = self.kind(s.value, tl) if s.value is not None else VCLEAN
            if ann_is_set(s.annotation):
                v = join(v, V(SET))
            el = ann_elem(s.annotation, self.an.repo, self.mod)
            if el:
                v = with_elem(v, el)
            if s.value is not None or ann_is_set(s.annotation) or el:
                self.assign_target(s.target, v, tl, s.value)
        elif isinstance(s, ast.AugAssign):
            v = self.kind(s.value, tl)
            if isinstance(s.target, ast.Name):
                cur = self.env.get(s.target.id, VCLEAN)
                if cur.kind == SET and isinstance(s.op, (ast.BitOr, ast.BitAnd, ast.Sub, ast.BitXor)):
                    pass
                else:
                    if v.kind in TAINTED:
                        self.setenv(s.target.id, v)
                    elif v.kind == SET and isinstance(s.op, ast.Add):
                        self.setenv(s.target.id, self.observe(v, s.value, 'list += set'))
                    if tl and not isinstance(s.op, (ast.BitOr, ast.BitAnd)) and self._nonnumeric(s):
                        self.setenv(s.target.id, V(ORDSEQ, self.loop_roots))
            else:
                self.assign_target(s.target, v if v.kind in TAINTED else VCLEAN, None)
        elif isinstance(s, ast.Expr):
            self.expr_stmt(s.value, tl)
        elif isinstance(s, ast.Return):
            if s.value is not None:
                if isinstance(s.value, ast.Tuple) and not any(isinstance(x, ast.Starred) for x in s.value.elts) and self.ret_tuple is not False:
                    ks = [self.kind(x, tl) for x in s.value.elts]
                    if self.ret_tuple is None:
                        self.ret_tuple = ks
                    elif len(self.ret_tuple) == len(ks):
                        self.ret_tuple = [join(a, b) for a, b in zip(self.ret_tuple, ks)]
                    else:
                        self.ret_tuple = False
                else:
                    self.ret_tuple = False
                v = self.kind(s.value, tl)
                if v.kind in TAINTED:
                    self.set_ret(v)
                elif v.kind == SET:
                    self.set_ret(V(SET))
                elif v.elem:
                    self.set_ret(v)
                if tl and self.depends(s.value, tl):
                    self.sink('select', s, 'order-selected element: return from inside a loop over a set',
                              V(ORDSEQ, self.loop_roots))
        elif isinstance(s, (ast.For, ast.AsyncFor)):
            iv = self.kind(s.iter, tl)
            lv = {n.id for n in ast.walk(s.target) if isinstance(n, ast.Name)}
            inner = tl
            saved_roots = self.loop_roots
            if iv.kind == SET or iv.kind in ORDS:
                ov = self.observe(iv, s.iter, 'iteration of a set')
                inner = set(tl or ()) | lv
                self.loop_roots = self.loop_roots | ov.roots
            elem = V(HOLD, iv.roots) if iv.kind in TAINTED else VCLEAN
            for n in lv:
                self.setenv(n, elem) if elem.kind != CLEAN else self.env.setdefault(n, VCLEAN)
            if iv.elem:
                saved_env = {n: self.env.get(n) for n in lv}
                self._bind_elem(s.target, iv, elem)
                for n in lv:
                    if self.env.get(n) != saved_env[n]:
                        self.changed = self.changed or (saved_env[n] is None or join(saved_env[n], self.env[n]) != saved_env[n])
                        self.env[n] = join(saved_env[n], self.env[n])
            self.block(s.body, inner)
            self.loop_roots = saved_roots
            self.block(s.orelse, tl)
        elif isinstance(s, ast.While):
            self.kind(s.test, tl)
            self.block(s.body, tl)
            self.block(s.orelse, tl)
        elif isinstance(s, ast.If):
            self.kind(s.test, tl)
            self.block(s.body, tl)
            self.block(s.orelse, tl)
        elif isinstance(s, (ast.With, ast.AsyncWith)):
            for it in s.items:
                v = self.kind(it.context_expr, tl)
                if it.optional_vars is not None:
                    self.assign_target(it.optional_vars, VCLEAN, tl)
            self.block(s.body, tl)
        elif isinstance(s, ast.Try):
            self.block(s.body, tl)
            for h in s.handlers:
                self.block(h.body, tl)
            self.block(s.orelse, tl)
            self.block(s.finalbody, tl)
        elif isinstance(s, (ast.FunctionDef, ast.AsyncFunctionDef, ast.ClassDef)):
            pass
        elif isinstance(s, ast.Raise):
            if s.exc is not None:
                self.kind(s.exc, tl)
        elif isinstance(s, ast.Assert):
            self.kind(s.test, tl)
        elif isinstance(s, ast.Delete):
            pass
        else:
            for c in ast.iter_child_nodes(s):
                if isinstance(c, ast.expr):
                    self.kind(c, tl)

    def _nonnumeric(self, s):
        v = s.value
        if isinstance(v, ast.Constant) and isinstance(v.value, (int, float)):
            return False
        if isinstance(v, ast.Name) and v.id in ('weight', 'count', 'n', 'num'):
            return False
        if isinstance(s.op, (ast.Add,)) and isinstance(v, (ast.Constant, ast.JoinedStr, ast.List, ast.ListComp, ast.Tuple)):
            return not (isinstance(v, ast.Constant) and isinstance(v.value, (int, float)))
        return False

    def expr_stmt(self, e, tl):
        if isinstance(e, (ast.Yield, ast.YieldFrom)):
            self._yield(e, tl)
            return
        if isinstance(e, ast.Call) and isinstance(e.func, ast.Attribute):
            f = e.func
            recv = f.value
            if f.attr in ('append', 'extend', 'insert', 'appendleft'):
                argv = [self.kind(a, tl) for a in e.args]
                r = self.root_name(recv)
                last = argv[-1] if argv else VCLEAN
                if r:
                    if f.attr == 'extend' and (last.kind == SET or last.kind in ORDS):
                        self.setenv(r, self.observe(last, e.args[-1], 'list.extend(set)'))
                    elif last.kind in TAINTED:
                        self.setenv(r, V(HOLD, last.roots))
                    if tl and not self.depends(recv, tl):
                        self.setenv(r, V(ORDSEQ, self.loop_roots))
                    # d.setdefault(k, []).append(x) inside a tainted loop: key insertion order of d
                    if isinstance(recv, ast.Call) and isinstance(recv.func, ast.Attribute) \
                            and recv.func.attr == 'setdefault' and tl and not self.depends(recv.func.value, tl):
                        rr = self.root_name(recv.func.value)
                        if rr:
                            self.setenv(rr, V(ORDDICT, self.loop_roots))
                return
            if f.attr in ('update', 'setdefault'):
                rv = self.kind(recv, tl)
                argv = [self.kind(a, tl) for a in e.args]
                r = self.root_name(recv)
                if rv.kind == SET:
                    return
                if r:
                    if f.attr == 'update' and argv and (argv[0].kind == SET or argv[0].kind in ORDS) \
                            and self._is_dictish(recv):
                        ov = self.observe(argv[0], e.args[0], 'dict.update from a set')
                        self.setenv(r, V(ORDDICT, ov.roots))
                    if tl and not self.depends(recv, tl) and self._is_dictish(recv):
                        self.setenv(r, V(ORDDICT, self.loop_roots))
                    held = [v for v in argv if v.kind in TAINTED]
                    if held:
                        self.setenv(r, V(HOLD, join(*held).roots))
                return
            if f.attr == 'sort' and isinstance(recv, ast.Name):
                haskey = any(k.arg == 'key' for k in e.keywords)
                if not haskey and recv.id in self.env and self.env[recv.id].kind == ORDSEQ:
                    self.env[recv.id] = VCLEAN
                return
            if f.attr == 'add':
                self.kind(recv, tl)
                for a in e.args:
                    self.kind(a, tl)
                return
        self.kind(e, tl)

    def _is_dictish(self, recv):
        if isinstance(recv, ast.Name):
            v = self.env.get(recv.id)
            if v is not None and v.kind == SET:
                return False
            return recv.id not in self.an.setish_names.get(self.func.key, set())
        return True

    def run(self):
        for _ in range(8):
            self.changed = False
            self.sinks = []
            self.block(self.func.node.body, None)
            if not self.changed:
                break
        return self


class Analysis:
    def __init__(self, ctx, output_params=None):
        self.ctx = ctx
        self.repo = ctx.repo
        self.cg = ctx.cg
        self.attr_kinds: dict[str, V] = {}
        self.attr_changed = False
        self.param_kinds: dict[str, tuple] = {}
        self.param_changed = False
        self._memo = {}
        self._inprogress = set()
        self.site_by_node = {id(s.node): s for s in ctx.sites}
        self.output_params = output_params or {}
        self.setish_names = {}
        self.keyless_orderings = {}
        self.tuple_results = {}
        self._globals = {}
        for func in self.repo.all_funcs():
            names = set()
            for n in walk_no_nested(func.node):
                if isinstance(n, ast.AnnAssign) and isinstance(n.target, ast.Name) and ann_is_set(n.annotation):
                    names.add(n.target.id)
                if isinstance(n, ast.Assign) and isinstance(n.value, (ast.Set, ast.SetComp)) or \
                        (isinstance(n, ast.Assign) and isinstance(n.value, ast.Call) and isinstance(n.value.func, ast.Name)
                         and n.value.func.id in ('set', 'frozenset')):
                    for t in n.targets:
                        if isinstance(t, ast.Name):
                            names.add(t.id)
            self.setish_names[func.key] = names

    def global_kind(self, mod, name):
        key = (mod.name, name)
        if key in self._globals:
            return self._globals[key]
        v = VCLEAN
        consts = module_consts(mod, self.repo)
        val = consts.get(name)
        if val is None:
            imp = mod.imports.get(name)
            if imp and imp[0] == 'obj' and imp[1] in self.repo.modules:
                val = module_consts(self.repo.modules[imp[1]], self.repo).get(imp[2])
        if isinstance(val, (set, frozenset)):
            v = V(SET)
        else:
            # syntactic fallback: NAME = {...} / set(...) / frozenset(...) at module level
            for n in mod.tree.body:
                if isinstance(n, ast.Assign) and any(isinstance(t, ast.Name) and t.id == name for t in n.targets):
                    x = n.value
                    if isinstance(x, (ast.Set, ast.SetComp)) or (isinstance(x, ast.Call) and isinstance(x.func, ast.Name)
                                                                  and x.func.id in ('set', 'frozenset')):
                        v = V(SET)
        self._globals[key] = v
        return v

    def note_call(self, callee, bound):
        old = self.param_kinds.get(callee.key)
        if old is None:
            new = tuple(bound)
        else:
            new = tuple(join(a, b) for a, b in zip(old, bound)) + tuple(bound[len(old):])
        if new != old:
            self.param_kinds[callee.key] = new
            self.param_changed = True

    def summary(self, func, argkinds):
        key = (func.key, argkinds)
        if key in self._memo:
            return self._memo[key].ret
        if key in self._inprogress:
            return VCLEAN
        self._inprogress.add(key)
        try:
            st = FuncState(self, func, argkinds).run()
        finally:
            self._inprogress.discard(key)
        ra = func.node.returns
        if ann_is_set(ra):
            st.ret = join(st.ret, V(SET))
        el = ann_elem(ra, self.repo, func.module)
        if el and not st.ret.elem:
            st.ret = with_elem(st.ret, el)
        self._memo[key] = st
        return st.ret

    def run(self):
        funcs = list(self.repo.all_funcs())
        states = {}
        for rnd in range(10):
            self.param_changed = False
            self.attr_changed = False
            self._memo = {}
            states = {}
            for f in funcs:
                pk = self.param_kinds.get(f.key, ())
                pk = tuple(pk) + (VCLEAN,) * (len(f.params) - len(pk))
                self.summary(f, pk)
                states[f.key] = self._memo[(f.key, pk)]
            if not self.param_changed and not self.attr_changed:
                break
        self.states = states
        self.rounds = rnd + 1
        return self
