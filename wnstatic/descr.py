"""Source descriptors: a canonical, variable-name-free description of the
expression that feeds an INSERT slot, in terms of the WN-LMF model
(`LexicalEntry.lemma.writtenForm`, `Sense.lexicalized?=True`, `lid(Sense.id)`,
`enum(1)@LexicalEntry.forms`, `const:0` ...)."""
from __future__ import annotations
import ast
from .src import norm
from .model import SubscriptChecker, M, U, L, Lit, ANY, elem
from .pyutil import nearest_assignment, binding_sites, parents
from .rowshape import UNWRAP, flow_sources, _binding_gen, iter_source

ACCESSORS = {'_entries': 'entries', '_forms': 'forms', '_senses': 'senses', '_synsets': 'synsets'}


class Describer:
    def __init__(self, ctx, func):
        self.ctx = ctx
        self.func = func
        self.model = ctx.model
        self.envs = {}
        self._capture()

    def _capture(self):
        """env (variable -> type) at every expression node of the function."""
        chk = SubscriptChecker(self.model, self.ctx, self.func, lambda *a: None)
        envs = self.envs
        orig = chk.check_expr

        def wrapped(e, env, facts):
            envs[id(e)] = dict(env)
            orig(e, env, facts)
        chk.check_expr = wrapped
        chk.run()
        self.typer = chk.typer

    def _inliner(self):
        from .effects import make_inliner
        return self.ctx.repo.cache(('descr-inliner', self.func.module.name), lambda: make_inliner(self.func.module))

    def env_at(self, node):
        n = node
        while n is not None:
            if id(n) in self.envs:
                return self.envs[id(n)]
            n = getattr(n, '_parent', None)
        return self.typer.param_env()

    def clsname(self, t):
        names = self.model.classes_of(t)
        # external twins collapse onto their base name: ExternalSense|Sense -> Sense
        base = sorted({n[len('External'):] if n.startswith('External') else n for n in names})
        return '|'.join(base) if base else None

    def _pseudo_row(self, node):
        """generators (comprehension / for) lexically enclosing `node`, as a Row-like object."""
        from .rowshape import Row
        gens = []
        prev = node
        for p in parents(node):
            if p is self.func.node:
                break
            if isinstance(p, (ast.ListComp, ast.SetComp, ast.GeneratorExp, ast.DictComp)):
                gens = [(g.target, g.iter) for g in p.generators] + gens
            elif isinstance(p, (ast.For, ast.AsyncFor)) and prev is not p.iter:
                gens = [(p.target, p.iter)] + gens
            prev = p
        return Row(elts=[], gens=gens, node=node)

    def describe(self, e, at=None, depth=0, row=None):
        at = at or e
        if row is None and isinstance(e, ast.Name) and getattr(e, '_parent', None) is not None:
            row = self._pseudo_row(e)
        env = self.env_at(at)
        fn = self.func.node
        if depth > 16:
            return f'expr:{norm(e)}'
        if isinstance(e, ast.Constant):
            return f'const:{e.value!r}'
        if isinstance(e, ast.Attribute) and e.attr == 'lastrowid':
            # the rowid of the row the importer has just inserted (the lexicon row in _insert_lexicon)
            return 'lexid'
        if isinstance(e, ast.Call) and isinstance(e.func, ast.Name) and e.func.id == 'cast' and len(e.args) == 2:
            return self.describe(e.args[1], at, depth + 1, row)      # typing.cast is the identity
        if isinstance(e, ast.Call) and isinstance(e.func, ast.Name) and depth < 14:
            inl = self._inliner()
            if e.func.id in inl.simple:
                from .inline import clone
                new = inl(clone(e))
                if not (isinstance(new, ast.Call) and isinstance(new.func, ast.Name) and new.func.id == e.func.id):
                    # the expanded expression stands where the call stood (enclosing loops / comprehensions are the call's)
                    for par in ast.walk(new):
                        for ch in ast.iter_child_nodes(par):
                            ch._parent = par
                        if not hasattr(par, 'lineno'):
                            par.lineno = getattr(e, 'lineno', 0)
                            par.col_offset = getattr(e, 'col_offset', 0)
                    new._parent = getattr(e, '_parent', None)
                    return self.describe(new, at, depth + 1, row)
        if isinstance(e, ast.Name):
            if e.id == 'lexid' and e.id in self.func.params:
                return 'lexid'
            en = self._enum(e.id, e, row)
            if en is not None:
                return en
            t = env.get(e.id, ANY)
            cn = self.clsname(t) if t is not ANY else None
            if cn and not any(s[0] in ('assign', 'unpack') for s in binding_sites(fn, e.id)):
                return cn
            v = nearest_assignment(fn, e.id, at)
            if v is None:
                # bound by unpacking a tuple display:  a, b = (x, y)
                for bs in binding_sites(fn, e.id):
                    if bs[0] == 'unpack' and isinstance(bs[1], (ast.Tuple, ast.List)) and isinstance(bs[2], (ast.Tuple, ast.List)) \
                            and len(bs[1].elts) == len(bs[2].elts) and getattr(bs[3], 'lineno', 0) <= getattr(at, 'lineno', 10 ** 9):
                        for tv, te in zip(bs[1].elts, bs[2].elts):
                            if isinstance(te, ast.Name) and te.id == e.id:
                                v = tv
                    elif bs[0] == 'unpack' and isinstance(bs[1], ast.IfExp) and isinstance(bs[2], (ast.Tuple, ast.List)) \
                            and isinstance(bs[1].body, ast.Tuple) and isinstance(bs[1].orelse, ast.Tuple) \
                            and len(bs[1].body.elts) == len(bs[1].orelse.elts) == len(bs[2].elts) \
                            and getattr(bs[3], 'lineno', 0) <= getattr(at, 'lineno', 10 ** 9):
                        # a, b = (x1, y1) if c else (x2, y2)
                        for i_, te in enumerate(bs[2].elts):
                            if isinstance(te, ast.Name) and te.id == e.id:
                                v = ast.IfExp(test=bs[1].test, body=bs[1].body.elts[i_], orelse=bs[1].orelse.elts[i_])
                                ast.copy_location(v, bs[1])
                                v._parent = bs[1]
            else:
                # assigned in both branches of one if/else: a conditional value
                both = self._if_else_value(e.id, at)
                if both is not None:
                    t, a, b = both
                    return (f'({self.describe(a, a, depth + 1, row)} if {self._cond(t, t, depth, row)} '
                            f'else {self.describe(b, b, depth + 1, row)})')
            if v is not None and row is not None:
                # a loop / comprehension variable of the row shadows an earlier plain assignment of the same name
                for tgt, _it in row.gens:
                    if e.id in {x.id for x in ast.walk(tgt) if isinstance(x, ast.Name)} and v.lineno < tgt.lineno:
                        v = None
                        break
            if v is not None and not (isinstance(v, ast.Call) and norm(v.func) == 'cast'):
                return self.describe(v, v, depth + 1, row)
            if cn:
                return cn
            # loop variable fed through lists of tuples / collections built locally
            if depth < 12:
                srcs = flow_sources(self.func, e.id, row)
                if srcs:
                    ds = sorted({self.describe(x, x, depth + 1, None) for x in srcs})
                    return ds[0] if len(ds) == 1 else '{' + ' | '.join(ds) + '}'
                dk = self._dict_flow(e.id, row, depth)
                if dk is not None:
                    return dk
                it, _ = iter_source(self.func, e.id, row) if row is not None else (None, None)
                if it is not None and not (isinstance(it, ast.Name) and it.id == e.id):
                    return f'each({self.describe(it, it, depth + 1, None)})'
            dk2 = self._dict_flow(e.id, row, depth) if row is None and getattr(e, '_parent', None) is not None else None
            if dk2 is not None:
                return dk2
            if e.id in self.func.params:
                return f'param:{e.id}'
            return f'var:{e.id}'
        if isinstance(e, ast.Subscript) and isinstance(e.slice, ast.Constant) and isinstance(e.slice.value, str):
            return f'{self.describe(e.value, at, depth + 1, row)}.{e.slice.value}'
        if isinstance(e, ast.Call) and isinstance(e.func, ast.Name) and e.func.id in ('set', 'list', 'tuple') and len(e.args) == 1 \
                and not e.keywords and isinstance(e.args[0], ast.GeneratorExp) and depth < 12:
            # set(x for ...) is the set comprehension {x for ...}
            comp = {'set': ast.SetComp, 'list': ast.ListComp, 'tuple': ast.ListComp}[e.func.id](elt=e.args[0].elt, generators=e.args[0].generators)
            ast.copy_location(comp, e)
            comp._parent = getattr(e, '_parent', None)
            return self.describe(comp, at, depth, row)
        if isinstance(e, ast.Call) and isinstance(e.func, ast.Attribute) and e.func.attr in ('items', 'keys') and not e.args \
                and not e.keywords and depth < 12:
            # iterating the items / keys of a mapping visits the same entries as iterating the mapping
            return self.describe(e.func.value, at, depth + 1, row)
        if isinstance(e, ast.Call):
            f = e.func
            if isinstance(f, ast.Attribute) and f.attr == 'get' and e.args and isinstance(e.args[0], ast.Constant):
                base = f.value
                if isinstance(base, ast.Name) and base.id == 'lexidmap' and len(e.args) == 2:
                    pass
                else:
                    d = f'{self.describe(base, at, depth + 1, row)}.{e.args[0].value}?'
                    if len(e.args) > 1:
                        d += f'={self.describe(e.args[1], at, depth + 1, row)[6:] if isinstance(e.args[1], ast.Constant) else norm(e.args[1])}'
                    return d
            if isinstance(f, ast.Attribute) and f.attr == 'get' and isinstance(f.value, ast.Name) and f.value.id == 'lexidmap' \
                    and len(e.args) == 2 and norm(e.args[1]) == 'lexid':
                return f'lid({self.describe(e.args[0], at, depth + 1, row)})'
            if isinstance(f, ast.Attribute) and f.attr == 'get' and len(e.args) == 2:
                recv = self.describe(f.value, at, depth + 1, row) if isinstance(f.value, ast.Name) and f.value.id not in self.func.params \
                    else norm(f.value)
                return f'{recv}.get({self.describe(e.args[0], at, depth + 1, row)}, {norm(e.args[1])})'
            if isinstance(f, ast.Name) and f.id in ACCESSORS and len(e.args) == 1:
                return f'{self.describe(e.args[0], at, depth + 1, row)}.{ACCESSORS[f.id]}'
            if isinstance(f, ast.Name) and len(e.args) >= 1 and not e.keywords:
                return f'{f.id}({", ".join(self.describe(a, at, depth + 1, row) for a in e.args)})'
            return f'expr:{norm(e)}'
        if isinstance(e, ast.UnaryOp) and isinstance(e.op, ast.USub) and isinstance(e.operand, ast.Constant):
            return f'const:{-e.operand.value!r}'
        if isinstance(e, ast.UnaryOp) and isinstance(e.op, ast.Not):
            return f'not ({self._cond(e.operand, at, depth, row)})'
        if isinstance(e, (ast.ListComp, ast.SetComp, ast.GeneratorExp, ast.DictComp)) and depth < 12:
            from .rowshape import Row
            r2 = Row(elts=[], gens=(list(row.gens) if row is not None else []) + [(g.target, g.iter) for g in e.generators], node=e)
            overs = [self.describe(g.iter, g.iter, depth + 1, r2) for g in e.generators]
            conds = [self._cond(c, c, depth, r2) for g in e.generators for c in g.ifs]
            if isinstance(e, ast.DictComp):
                body = f'{self.describe(e.key, e.key, depth + 1, r2)}: {self.describe(e.value, e.value, depth + 1, r2)}'
            else:
                body = self.describe(e.elt, e.elt, depth + 1, r2)
            kind = {ast.ListComp: 'list', ast.SetComp: 'set', ast.GeneratorExp: 'gen', ast.DictComp: 'dict'}[type(e)]
            return f'{kind}[{body} over {" , ".join(overs)}' + (f' if {" and ".join(conds)}' if conds else '') + ']'
        if isinstance(e, (ast.List, ast.Tuple)) and depth < 12:
            return '[' + ', '.join(self.describe(x, x, depth + 1, row) for x in e.elts) + ']'
        if isinstance(e, ast.IfExp):
            t, a, b = e.test, e.body, e.orelse
            while isinstance(t, ast.UnaryOp) and isinstance(t.op, ast.Not):
                t, a, b = t.operand, b, a
            if isinstance(t, ast.Compare) and len(t.ops) == 1 and isinstance(t.ops[0], (ast.Eq, ast.Is)):
                # `x if a == b else y` is `y if a != b else x`: one spelling
                t = ast.copy_location(ast.Compare(left=t.left, ops=[ast.NotEq() if isinstance(t.ops[0], ast.Eq) else ast.IsNot()],
                                                  comparators=t.comparators), t)
                t._parent = getattr(e, '_parent', None)
                a, b = b, a
            return (f'({self.describe(a, at, depth + 1, row)} if {self._cond(t, at, depth, row)} '
                    f'else {self.describe(b, at, depth + 1, row)})')
        if isinstance(e, ast.BoolOp):
            op = ' and ' if isinstance(e.op, ast.And) else ' or '
            return '(' + op.join(self.describe(v, at, depth + 1, row) for v in e.values) + ')'
        if isinstance(e, ast.Subscript) and depth < 6:
            if isinstance(e.value, ast.Name):
                dv = nearest_assignment(fn, e.value.id, at)
                if isinstance(dv, ast.DictComp):
                    # D[k] with k ranging over the keys of D = {K: V for ...}: the value V of that key
                    kd = self.describe(dv.key, dv.key, depth + 1, None)
                    if self.describe(e.slice, at, depth + 1, row) == kd:
                        return self.describe(dv.value, dv.value, depth + 1, None)
            return f'{self.describe(e.value, at, depth + 1, row)}[{self.describe(e.slice, at, depth + 1, row)}]'
        if isinstance(e, ast.Call) and isinstance(e.func, ast.Attribute) and e.func.attr in ('items', 'values', 'keys') and not e.args and depth < 6:
            if e.func.attr in ('items', 'keys'):
                # iterating the items / keys of a mapping visits the same entries as iterating the mapping
                return self.describe(e.func.value, at, depth + 1, row)
            return f'{self.describe(e.func.value, at, depth + 1, row)}.{e.func.attr}()'
        return f'expr:{norm(e)}'

    def _cond(self, t, at, depth, row):
        if isinstance(t, ast.UnaryOp) and isinstance(t.op, ast.Not) and isinstance(t.operand, (ast.BoolOp, ast.Compare, ast.UnaryOp)):
            # negation normal form: not (a or b) = not a and not b; not (x != y) = x == y
            from .effects import neg_ast
            t2 = neg_ast(t.operand)
            if not (isinstance(t2, ast.UnaryOp) and isinstance(t2.op, ast.Not) and t2.operand is t.operand):
                return self._cond(t2, at, depth, row)
        if isinstance(t, ast.Compare) and len(t.ops) == 1:
            op = {ast.Eq: '==', ast.NotEq: '!=', ast.Is: 'is', ast.IsNot: 'is not', ast.In: 'in', ast.NotIn: 'not in'}.get(type(t.ops[0]), '?')
            return f'{self.describe(t.left, at, depth + 1, row)} {op} {self.describe(t.comparators[0], at, depth + 1, row)}'
        if isinstance(t, ast.BoolOp):
            op = ' and ' if isinstance(t.op, ast.And) else ' or '
            return op.join(self._cond(v, at, depth, row) for v in t.values)
        if isinstance(t, ast.UnaryOp) and isinstance(t.op, ast.Not):
            return f'not ({self._cond(t.operand, at, depth, row)})'
        if isinstance(t, ast.Call) and isinstance(t.func, ast.Name) and t.func.id == '_is_external' and t.args:
            return f'external({self.describe(t.args[0], at, depth + 1, row)})'
        return self.describe(t, at, depth + 1, row)

    def _if_else_value(self, name, at):
        """(test, value-if-true, value-if-false) when the nearest bindings of `name` before `at` are the two single assignments in
        the branches of one if/else statement"""
        best = None
        for n in ast.walk(self.func.node):
            if isinstance(n, ast.If) and len(n.body) == 1 and len(n.orelse) == 1 and getattr(n, 'end_lineno', 0) < getattr(at, 'lineno', 0):
                a, b = n.body[0], n.orelse[0]
                if all(isinstance(x, ast.Assign) and len(x.targets) == 1 and isinstance(x.targets[0], ast.Name) and x.targets[0].id == name
                       for x in (a, b)):
                    if best is None or n.lineno > best[0].lineno:
                        best = (n, a.value, b.value)
        if best is None:
            return None
        # no other assignment between the if and the use
        for bs in binding_sites(self.func.node, name):
            if bs[0] == 'assign' and best[0].end_lineno < bs[2].lineno < getattr(at, 'lineno', 0):
                return None
        return best[0].test, best[1], best[2]

    def _dict_flow(self, name, row, depth):
        """`for k in D` / `for x in D[k]` where D is a dict comprehension built in the same function."""
        bg = _binding_gen(self.func, name, row)
        if bg is None:
            return None
        is_items = isinstance(bg[1], ast.Call) and isinstance(bg[1].func, ast.Attribute) and bg[1].func.attr == 'items' and not bg[1].args
        if bg[2] is not None and not is_items:
            return None
        it = bg[1]
        sub = False
        if isinstance(it, ast.Subscript):
            it, sub = it.value, True
        if isinstance(it, ast.Call) and isinstance(it.func, ast.Attribute) and it.func.attr == 'items' and not it.args \
                and isinstance(it.func.value, ast.Name) and isinstance(bg[0], (ast.Tuple, ast.List)) and len(bg[0].elts) == 2:
            # for key, value in D.items()
            v = nearest_assignment(self.func.node, it.func.value.id, bg[0])
            if isinstance(v, ast.DictComp):
                if isinstance(bg[0].elts[0], ast.Name) and bg[0].elts[0].id == name:
                    return self.describe(v.key, v.key, depth + 1, None)
                if isinstance(bg[0].elts[1], ast.Name) and bg[0].elts[1].id == name:
                    return self.describe(v.value, v.value, depth + 1, None)
            return None
        if isinstance(it, ast.Name) and row is not None:
            # for x in value  where  (key, value) ranges over D.items()
            bg2 = _binding_gen(self.func, it.id, row)
            if bg2 is not None and isinstance(bg2[1], ast.Call) and isinstance(bg2[1].func, ast.Attribute) and bg2[1].func.attr == 'items' \
                    and isinstance(bg2[0], (ast.Tuple, ast.List)) and len(bg2[0].elts) == 2 and isinstance(bg2[0].elts[1], ast.Name) \
                    and bg2[0].elts[1].id == it.id and isinstance(bg2[1].func.value, ast.Name):
                v = nearest_assignment(self.func.node, bg2[1].func.value.id, bg2[0])
                if isinstance(v, ast.DictComp):
                    return f'each({self.describe(v.value, v.value, depth + 1, None)})'
        if not isinstance(it, ast.Name):
            return None
        v = nearest_assignment(self.func.node, it.id, bg[0])
        if isinstance(v, ast.DictComp):
            if sub:
                return f'each({self.describe(v.value, v.value, depth + 1, None)})'
            return self.describe(v.key, v.key, depth + 1, None)
        return None

    def _enum(self, name, at, row):
        """`i` bound by `for i, x in enumerate(ITER[, start])` -> enum(start)@<ITER descriptor>"""
        gens = list(reversed(row.gens)) if row is not None else []      # innermost binding first
        for n in ast.walk(self.func.node):
            if isinstance(n, (ast.For, ast.comprehension)):
                gens.append((n.target, n.iter))
        for tgt, it in gens:
            if isinstance(tgt, (ast.Tuple, ast.List)) and len(tgt.elts) == 2 and isinstance(tgt.elts[0], ast.Name) \
                    and tgt.elts[0].id == name and isinstance(it, ast.Call) and isinstance(it.func, ast.Name) \
                    and it.func.id == 'enumerate' and it.args:
                start = 0
                if len(it.args) > 1 and isinstance(it.args[1], ast.Constant):
                    start = it.args[1].value
                for k in it.keywords:
                    if k.arg == 'start' and isinstance(k.value, ast.Constant):
                        start = k.value.value
                return f'enum({start})@{self.describe(it.args[0], it.args[0], 1, row)}'
        return None
