"""Structural fragment matching, insensitive to the names of local variables.

`contains(node, 'k = lcs.max_depth() + 1')` is true when some statement / expression under `node` has the same
syntax tree as the fragment up to a consistent renaming of *local* names (names that are neither builtins nor bound
at module level: functions, classes, constants, imports stay literal).  Attribute names, keyword names, string and
number constants are always literal."""
from __future__ import annotations
import ast
import builtins

_BUILTINS = set(dir(builtins)) | {'cast', 'Optional', 'Union'}
_cache = {}


def _parse_fragment(frag):
    """-> (kind, node) where kind in 'stmt', 'expr', 'header', 'comp' or None"""
    if frag in _cache:
        return _cache[frag]
    out = (None, None)
    try:
        m = ast.parse(frag)
        if len(m.body) == 1:
            st = m.body[0]
            if isinstance(st, ast.Expr):
                out = ('expr', st.value)
            else:
                out = ('stmt', st)
        elif m.body:
            out = ('stmts', m.body)
    except SyntaxError:
        for suffix in (':\n    pass', ' pass'):
            try:
                m = ast.parse(frag + suffix)
                if len(m.body) == 1 and isinstance(m.body[0], (ast.If, ast.For, ast.While, ast.With, ast.Try, ast.FunctionDef, ast.AsyncFor)):
                    out = ('header', m.body[0])
                    break
            except SyntaxError:
                pass
        if out[0] is None and frag.lstrip().startswith(('elif ', 'else')):
            try:
                m = ast.parse('if x:\n    pass\n' + frag + ':\n    pass')
                node = m.body[0].orelse[0] if m.body[0].orelse else None
                if isinstance(node, ast.If):
                    out = ('header', node)
            except SyntaxError:
                pass
        if out[0] is None:
            for l, r in (('[', ']'), ('{', '}'), ('(', ')')):
                try:
                    m = ast.parse(l + frag + r, mode='eval')
                    if isinstance(m.body, (ast.ListComp, ast.DictComp, ast.SetComp, ast.GeneratorExp)):
                        out = ('comp', m.body)
                        break
                except SyntaxError:
                    pass
    _cache[frag] = out
    return out


def module_names(node):
    """names bound at module level of the module that contains `node`."""
    root = node
    while getattr(root, '_parent', None) is not None:
        root = root._parent
    key = ('modnames', id(root))
    if key in _cache:
        return _cache[key]
    names = set()
    if isinstance(root, ast.Module):
        for s in ast.walk(root):
            if isinstance(s, (ast.Import, ast.ImportFrom)):
                for a in s.names:
                    names.add((a.asname or a.name).split('.')[0])
        for s in root.body:
            if isinstance(s, (ast.FunctionDef, ast.AsyncFunctionDef, ast.ClassDef)):
                names.add(s.name)
            elif isinstance(s, (ast.Assign, ast.AnnAssign, ast.AugAssign)):
                tg = s.targets if isinstance(s, ast.Assign) else [s.target]
                for t in tg:
                    for x in ast.walk(t):
                        if isinstance(x, ast.Name):
                            names.add(x.id)
    _cache[key] = names
    return names


_SKIP = {'lineno', 'col_offset', 'end_lineno', 'end_col_offset', 'ctx', 'type_comment', '_parent', 'type_ignores', 'kind'}
_COMPS = (ast.ListComp, ast.SetComp, ast.GeneratorExp)


def _m(p, c, bind, literal, header=False):
    if isinstance(p, ast.Name):
        if not isinstance(c, ast.Name):
            return False
        if p.id in literal or p.id in _BUILTINS:
            return p.id == c.id
        if c.id in literal and c.id != p.id:
            return False
        b = bind.get(p.id)
        if b is None:
            if c.id in bind.values() and c.id != p.id:
                # two pattern variables may not collapse onto one candidate name
                return False
            bind[p.id] = c.id
            return True
        return b == c.id
    if isinstance(p, ast.arg):
        if not isinstance(c, ast.arg):
            return False
        b = bind.setdefault(p.arg, c.arg)
        return b == c.arg
    if isinstance(p, _COMPS) and isinstance(c, _COMPS):
        pass
    elif type(p) is not type(c):
        return False
    if isinstance(p, ast.AST):
        for fld in p._fields:
            if fld in _SKIP:
                continue
            if header and fld in ('body', 'orelse', 'finalbody', 'handlers', 'decorator_list', 'returns'):
                continue
            if not _m(getattr(p, fld, None), getattr(c, fld, None), bind, literal):
                return False
        return True
    if isinstance(p, list):
        if not isinstance(c, list) or len(p) != len(c):
            return False
        return all(_m(x, y, bind, literal) for x, y in zip(p, c))
    return p == c


def _is_bare(pn):
    """a fragment that is only a name / dotted name / constant carries its meaning in the name itself: compare literally."""
    while isinstance(pn, ast.Attribute):
        pn = pn.value
    return isinstance(pn, (ast.Name, ast.Constant))


def same(node, frag, bind=None, fixed=()):
    """does `node` equal the fragment (up to renaming of locals other than `fixed`)?"""
    kind, pn = _parse_fragment(frag)
    if kind is None or node is None:
        return None
    if kind == 'expr' and _is_bare(pn):
        return ' '.join(ast.unparse(node).split()) == ' '.join(frag.split())
    literal = module_names(node) | set(fixed)
    if kind == 'stmts':
        return False
    if kind == 'expr' and isinstance(node, ast.Expr):
        node = node.value
    return _m(pn, node, {} if bind is None else bind, literal, header=(kind == 'header'))


def contains(node, frag, fixed=()):
    """does the subtree of `node` contain the fragment?  None when the fragment is not parseable python."""
    kind, pn = _parse_fragment(frag)
    if kind is None or node is None:
        return None
    if kind == 'expr' and _is_bare(pn):
        return None
    literal = module_names(node) | set(fixed)
    if kind == 'stmts':
        # consecutive statements of some block
        for n in ast.walk(node):
            for fld in ('body', 'orelse', 'finalbody'):
                blk = getattr(n, fld, None)
                if isinstance(blk, list) and len(blk) >= len(pn):
                    for i in range(len(blk) - len(pn) + 1):
                        bind = {}
                        if all(_m(p, c, bind, literal) for p, c in zip(pn, blk[i:i + len(pn)])):
                            return True
        return False
    for n in ast.walk(node):
        if kind == 'comp':
            if isinstance(n, _COMPS + (ast.DictComp,)) and _m(pn, n, {}, literal):
                return True
            continue
        if kind == 'expr' and not isinstance(n, ast.expr):
            continue
        if kind in ('stmt', 'header') and not isinstance(n, ast.stmt):
            continue
        if _m(pn, n, {}, literal, header=(kind == 'header')):
            return True
    return False


class Frag(str):
    """source text of a node with opt-in structural containment/equality:  `'k = lcs.max_depth() + 1' in Frag(func.node)`
    holds for the literal text or for any statement equal to it up to a consistent renaming of local variables (names in
    `fixed` stay literal).  Used for definitional anchors, where the names carry no meaning."""
    node = None
    fixed = ()

    def __new__(cls, node, fixed=()):
        t = str.__new__(cls, ' '.join(ast.unparse(node).split()))
        t.node = node
        t.fixed = tuple(fixed)
        return t

    def __contains__(self, frag):
        if str.__contains__(self, frag):
            return True
        return bool(contains(self.node, frag, self.fixed))

    def __eq__(self, other):
        if str.__eq__(self, other) is True:
            return True
        if isinstance(other, str) and not isinstance(other, Frag):
            return bool(same(self.node, other, fixed=self.fixed))
        return False

    def __ne__(self, other):
        return not self.__eq__(other)

    __hash__ = str.__hash__


class Template:
    """Several fragments matched against one function with SHARED bindings of local names.

        t = Template(func.node)                      # parameters and module-level names are literal
        t.has('freq = _initialize(wordnet, smoothing)')      -> node or None; binds `freq` to the actual local name
        t.actual('freq')                             -> the name used in the source ('freq' if unbound)
        t.has('freq[pos][ss.id] += weight')          -> must now use the same actual name for `freq`

    A fragment that does not match leaves the bindings unchanged.  `within=` restricts the search to a subtree."""

    def __init__(self, node, fixed=()):
        self.node = node
        fx = set(fixed)
        if isinstance(node, (ast.FunctionDef, ast.AsyncFunctionDef)):
            a = node.args
            fx |= {p.arg for p in a.posonlyargs + a.args + a.kwonlyargs}
            if a.vararg:
                fx.add(a.vararg.arg)
            if a.kwarg:
                fx.add(a.kwarg.arg)
        self.literal = module_names(node) | fx
        self.bind = {}

    def actual(self, name):
        return self.bind.get(name, name)

    def all(self, frag, within=None):
        """every node that matches the fragment under the current bindings (bindings are NOT extended)."""
        kind, pn = _parse_fragment(frag)
        out = []
        if kind is None or kind == 'stmts':
            return out
        for n in ast.walk(within or self.node):
            if kind == 'comp':
                if not isinstance(n, _COMPS + (ast.DictComp,)):
                    continue
            elif kind == 'expr' and not isinstance(n, ast.expr):
                continue
            elif kind in ('stmt', 'header') and not isinstance(n, ast.stmt):
                continue
            b = dict(self.bind)
            if _m(pn, n, b, self.literal, header=(kind == 'header')):
                out.append((n, b))
        return out

    def has(self, frag, within=None, commit=True):
        ms = self.all(frag, within)
        if not ms:
            return None
        ms.sort(key=lambda x: (getattr(x[0], 'lineno', 0), getattr(x[0], 'col_offset', 0)))
        n, b = ms[0]
        if commit:
            self.bind = b
        return n

    def text(self, frag):
        """the fragment with pattern names replaced by the actual names (for messages / further norm() comparisons)"""
        kind, pn = _parse_fragment(frag)
        if kind is None:
            return frag
        import copy as _copy

        class R(ast.NodeTransformer):
            def visit_Name(s, node):  # noqa: N805
                return ast.copy_location(ast.Name(id=self.bind.get(node.id, node.id), ctx=node.ctx), node)
        t = frag
        try:
            if kind in ('expr', 'stmt'):
                t = ' '.join(ast.unparse(R().visit(_copy.deepcopy(pn))).split())
        except Exception:  # noqa: BLE001
            pass
        return t
