"""Small def-use helpers over one function's syntax tree."""
from __future__ import annotations
import ast
from .src import walk_no_nested, norm


def assignments_to(func_node, name):
    """all (stmt, value_node, target_node) that bind `name` by plain assignment in the function (not nested defs)."""
    out = []
    for n in walk_no_nested(func_node):
        if isinstance(n, ast.Assign):
            for t in n.targets:
                if isinstance(t, ast.Name) and t.id == name:
                    out.append((n, n.value, t))
        elif isinstance(n, ast.AnnAssign) and isinstance(n.target, ast.Name) and n.target.id == name and n.value is not None:
            out.append((n, n.value, n.target))
        elif isinstance(n, ast.NamedExpr) and isinstance(n.target, ast.Name) and n.target.id == name:
            out.append((n, n.value, n.target))
    return out


def binding_sites(func_node, name):
    """every construct that binds `name`: ('assign', value) | ('for', iter, target) | ('comp', iter, target) |
    ('with', expr) | ('param',) | ('aug', value) | ('unpack', value, target)"""
    out = []
    a = func_node.args if hasattr(func_node, 'args') else None
    if a is not None:
        for p in a.posonlyargs + a.args + a.kwonlyargs + ([a.vararg] if a.vararg else []) + ([a.kwarg] if a.kwarg else []):
            if p.arg == name:
                out.append(('param', p))
    for n in walk_no_nested(func_node):
        if isinstance(n, ast.Assign):
            for t in n.targets:
                if isinstance(t, ast.Name) and t.id == name:
                    out.append(('assign', n.value, n))
                elif isinstance(t, (ast.Tuple, ast.List)) and name in _target_names(t):
                    out.append(('unpack', n.value, t, n))
        elif isinstance(n, ast.AnnAssign) and isinstance(n.target, ast.Name) and n.target.id == name and n.value is not None:
            out.append(('assign', n.value, n))
        elif isinstance(n, ast.AugAssign) and isinstance(n.target, ast.Name) and n.target.id == name:
            out.append(('aug', n.value, n))
        elif isinstance(n, (ast.For, ast.AsyncFor)) and name in _target_names(n.target):
            out.append(('for', n.iter, n.target, n))
        elif isinstance(n, ast.comprehension) and name in _target_names(n.target):
            out.append(('comp', n.iter, n.target, n))
        elif isinstance(n, (ast.With, ast.AsyncWith)):
            for it in n.items:
                if it.optional_vars is not None and name in _target_names(it.optional_vars):
                    out.append(('with', it.context_expr, n))
        elif isinstance(n, ast.ExceptHandler) and n.name == name:
            out.append(('except', n))
        elif isinstance(n, ast.NamedExpr) and isinstance(n.target, ast.Name) and n.target.id == name:
            out.append(('assign', n.value, n))
    return out


def _target_names(t):
    return {x.id for x in ast.walk(t) if isinstance(x, ast.Name)}


def target_index(target, name):
    """position of `name` in a flat tuple target (None if nested / starred before it)."""
    if isinstance(target, ast.Name):
        return None
    if isinstance(target, (ast.Tuple, ast.List)):
        for i, e in enumerate(target.elts):
            if isinstance(e, ast.Starred):
                if isinstance(e.value, ast.Name) and e.value.id == name:
                    return ('star', i)
                return None if name in _target_names(target) and i < len(target.elts) else None
            if isinstance(e, ast.Name) and e.id == name:
                return i
    return None


def nearest_assignment(func_node, name, before_node):
    """the closest textually-preceding plain assignment to `name` (value node) or None."""
    best = None
    line = getattr(before_node, 'lineno', 10 ** 9)
    for stmt, value, tgt in assignments_to(func_node, name):
        if stmt.lineno <= line and (best is None or stmt.lineno > best[0].lineno):
            if stmt.lineno == line and stmt is not before_node and not _contains(stmt, before_node):
                continue
            if _contains(stmt, before_node) and not isinstance(stmt, ast.NamedExpr):
                continue
            best = (stmt, value)
    return best[1] if best else None


def _contains(outer, inner):
    for n in ast.walk(outer):
        if n is inner:
            return True
    return False


def resolve_value(func_node, expr, depth=0):
    """follow a Name through its (unique nearest) local assignment."""
    while isinstance(expr, ast.Name) and depth < 6:
        v = nearest_assignment(func_node, expr.id, expr)
        if v is None:
            break
        expr = v
        depth += 1
    return expr


def parents(node):
    n = getattr(node, '_parent', None)
    while n is not None:
        yield n
        n = getattr(n, '_parent', None)


def enclosing(node, types):
    for p in parents(node):
        if isinstance(p, types):
            return p
    return None


def enclosing_loops(node, stop=None):
    out = []
    for p in parents(node):
        if p is stop:
            break
        if isinstance(p, (ast.FunctionDef, ast.AsyncFunctionDef, ast.Lambda)):
            break
        if isinstance(p, (ast.For, ast.While, ast.AsyncFor)):
            out.append(p)
    return out


def call_name(call):
    f = call.func
    if isinstance(f, ast.Name):
        return f.id
    if isinstance(f, ast.Attribute):
        return f.attr
    return None


def get_arg(call, func, pname):
    """argument expression bound to parameter `pname` of `func` (FuncInfo) at `call`, or None if omitted.
    Returns the string 'UNKNOWN' when a * / ** splat hides it."""
    params = func.params
    skip = 1 if func.cls is not None and params and params[0] in ('self', 'cls') and func.name != '__new__' else 0
    if func.name == '__new__':
        skip = 1
    for kw in call.keywords:
        if kw.arg == pname:
            return kw.value
    if pname in params:
        idx = params.index(pname) - skip
        kwonly = [p.arg for p in func.node.args.kwonlyargs]
        if pname not in kwonly and 0 <= idx < len(call.args):
            if any(isinstance(a, ast.Starred) for a in call.args[:idx + 1]):
                return 'UNKNOWN'
            return call.args[idx]
    if any(kw.arg is None for kw in call.keywords):
        return 'UNKNOWN'
    return None


def is_self_attr(node, attr=None):
    return isinstance(node, ast.Attribute) and isinstance(node.value, ast.Name) and node.value.id == 'self' \
        and (attr is None or node.attr == attr)


def dotted(node):
    try:
        return norm(node)
    except Exception:  # noqa: BLE001
        return '?'
