"""A small, pure evaluator for module-level constant initialisers.

It folds literals, f-strings over constants, tuple/list/dict/set displays,
comprehensions over constant tables, a handful of pure builtins and string
methods, `D.update(...)`, `D[K] = ...` and enum.Flag classes using auto().
Anything else is `Unknown` — never guessed."""
from __future__ import annotations
import ast


class Unknown:
    def __init__(self, why):
        self.why = why

    def __repr__(self):
        return f'<Unknown {self.why}>'

    def __bool__(self):
        raise TypeError('truth of Unknown')


class _Stop(Exception):
    def __init__(self, why):
        self.why = why


class FlagVal(int):
    """value of an enum.Flag member (bit set)."""


_PURE_BUILTINS = {
    'dict': dict, 'list': list, 'tuple': tuple, 'set': set, 'frozenset': frozenset,
    'sorted': sorted, 'len': len, 'str': str, 'int': int, 'bool': bool,
    'min': min, 'max': max, 'sum': sum, 'zip': zip, 'enumerate': enumerate,
    'range': range, 'reversed': reversed, 'any': any, 'all': all,
}
_PURE_METHODS = {
    str: {'format', 'join', 'split', 'strip', 'lower', 'upper', 'encode', 'startswith',
          'endswith', 'replace', 'rstrip', 'lstrip'},
    bytes: {'decode', 'join', 'split', 'strip', 'replace'},
    dict: {'items', 'keys', 'values', 'get', 'copy'},
    list: {'copy', 'index', 'count'},
    tuple: {'index', 'count'},
    set: {'union', 'intersection', 'difference', 'copy', 'issubset'},
    frozenset: {'union', 'intersection', 'difference', 'copy', 'issubset'},
}


def _ev(e, env, resolve):
    if isinstance(e, ast.Constant):
        return e.value
    if isinstance(e, ast.Name):
        if e.id in env:
            v = env[e.id]
            if isinstance(v, Unknown):
                raise _Stop(f'name {e.id}: {v.why}')
            return v
        if e.id in ('True', 'False', 'None'):
            return {'True': True, 'False': False, 'None': None}[e.id]
        v = resolve(e.id)
        if isinstance(v, Unknown):
            raise _Stop(f'name {e.id}: {v.why}')
        return v
    if isinstance(e, ast.JoinedStr):
        out = ''
        for v in e.values:
            if isinstance(v, ast.Constant):
                out += v.value
            else:
                x = _ev(v.value, env, resolve)
                if v.conversion == 114:
                    x = repr(x)
                elif v.conversion == 115:
                    x = str(x)
                spec = _ev(v.format_spec, env, resolve) if v.format_spec else ''
                out += format(x, spec)
        return out
    if isinstance(e, ast.Tuple):
        return tuple(_elts(e.elts, env, resolve))
    if isinstance(e, ast.List):
        return list(_elts(e.elts, env, resolve))
    if isinstance(e, ast.Set):
        return set(_elts(e.elts, env, resolve))
    if isinstance(e, ast.Dict):
        d = {}
        for k, v in zip(e.keys, e.values):
            if k is None:
                d.update(_ev(v, env, resolve))
            else:
                d[_ev(k, env, resolve)] = _ev(v, env, resolve)
        return d
    if isinstance(e, (ast.ListComp, ast.SetComp, ast.GeneratorExp, ast.DictComp)):
        out = []

        def rec(i, env2):
            if i == len(e.generators):
                if isinstance(e, ast.DictComp):
                    out.append((_ev(e.key, env2, resolve), _ev(e.value, env2, resolve)))
                else:
                    out.append(_ev(e.elt, env2, resolve))
                return
            g = e.generators[i]
            for item in _ev(g.iter, env2, resolve):
                env3 = dict(env2)
                _bind(g.target, item, env3)
                if all(_ev(c, env3, resolve) for c in g.ifs):
                    rec(i + 1, env3)
        rec(0, dict(env))
        if isinstance(e, ast.DictComp):
            return dict(out)
        if isinstance(e, ast.SetComp):
            return set(out)
        return out
    if isinstance(e, ast.BinOp):
        a, b = _ev(e.left, env, resolve), _ev(e.right, env, resolve)
        try:
            if isinstance(e.op, ast.Add):
                return a + b
            if isinstance(e.op, ast.BitOr):
                r = a | b
                return FlagVal(r) if isinstance(a, FlagVal) else r
            if isinstance(e.op, ast.BitAnd):
                r = a & b
                return FlagVal(r) if isinstance(a, FlagVal) else r
            if isinstance(e.op, ast.Sub):
                return a - b
            if isinstance(e.op, ast.Mult):
                return a * b
            if isinstance(e.op, ast.Mod):
                return a % b
        except Exception as exc:  # noqa: BLE001
            raise _Stop(f'binop: {exc}')
        raise _Stop('binop kind')
    if isinstance(e, ast.UnaryOp):
        v = _ev(e.operand, env, resolve)
        if isinstance(e.op, ast.Not):
            return not v
        if isinstance(e.op, ast.USub):
            return -v
        raise _Stop('unaryop')
    if isinstance(e, ast.BoolOp):
        vals = [_ev(v, env, resolve) for v in e.values]
        if isinstance(e.op, ast.And):
            r = True
            for v in vals:
                r = v
                if not v:
                    break
            return r
        r = False
        for v in vals:
            r = v
            if v:
                break
        return r
    if isinstance(e, ast.Compare):
        left = _ev(e.left, env, resolve)
        for op, c in zip(e.ops, e.comparators):
            right = _ev(c, env, resolve)
            ok = {ast.Eq: lambda: left == right, ast.NotEq: lambda: left != right,
                  ast.In: lambda: left in right, ast.NotIn: lambda: left not in right,
                  ast.Is: lambda: left is right, ast.IsNot: lambda: left is not right,
                  ast.Lt: lambda: left < right, ast.LtE: lambda: left <= right,
                  ast.Gt: lambda: left > right, ast.GtE: lambda: left >= right}[type(op)]()
            if not ok:
                return False
            left = right
        return True
    if isinstance(e, ast.IfExp):
        return _ev(e.body if _ev(e.test, env, resolve) else e.orelse, env, resolve)
    if isinstance(e, ast.Subscript):
        base = _ev(e.value, env, resolve)
        if isinstance(e.slice, ast.Slice):
            lo = _ev(e.slice.lower, env, resolve) if e.slice.lower else None
            hi = _ev(e.slice.upper, env, resolve) if e.slice.upper else None
            st = _ev(e.slice.step, env, resolve) if e.slice.step else None
            return base[lo:hi:st]
        try:
            return base[_ev(e.slice, env, resolve)]
        except Exception as exc:  # noqa: BLE001
            raise _Stop(f'subscript: {exc}')
    if isinstance(e, ast.Attribute):
        base = _ev(e.value, env, resolve)
        if isinstance(base, dict) and base.get('__flagclass__') and e.attr in base:
            return base[e.attr]
        raise _Stop(f'attribute {ast.unparse(e)}')
    if isinstance(e, ast.Starred):
        raise _Stop('starred')
    if isinstance(e, ast.Call):
        f = e.func
        args = _elts(e.args, env, resolve)
        kwargs = {k.arg: _ev(k.value, env, resolve) for k in e.keywords if k.arg}
        if isinstance(f, ast.Name) and f.id in _PURE_BUILTINS and f.id not in env:
            try:
                r = _PURE_BUILTINS[f.id](*args, **kwargs)
            except Exception as exc:  # noqa: BLE001
                raise _Stop(f'call {f.id}: {exc}')
            if f.id in ('zip', 'enumerate', 'reversed', 'range'):
                r = list(r)
            return r
        if isinstance(f, ast.Attribute):
            recv = _ev(f.value, env, resolve)
            for typ, names in _PURE_METHODS.items():
                if isinstance(recv, typ) and f.attr in names:
                    try:
                        r = getattr(recv, f.attr)(*args, **kwargs)
                    except Exception as exc:  # noqa: BLE001
                        raise _Stop(f'method {f.attr}: {exc}')
                    if f.attr in ('items', 'keys', 'values'):
                        r = list(r)
                    return r
        raise _Stop(f'call {ast.unparse(f)}')
    raise _Stop(type(e).__name__)


def _elts(elts, env, resolve):
    out = []
    for x in elts:
        if isinstance(x, ast.Starred):
            out.extend(_ev(x.value, env, resolve))
        else:
            out.append(_ev(x, env, resolve))
    return out


def _bind(target, value, env):
    if isinstance(target, ast.Name):
        env[target.id] = value
    elif isinstance(target, (ast.Tuple, ast.List)):
        vals = list(value)
        if len(vals) != len(target.elts):
            raise _Stop('unpack arity')
        for t, v in zip(target.elts, vals):
            _bind(t, v, env)
    else:
        raise _Stop('bind target')


def evaluate(expr, env=None, resolve=None):
    """Evaluate an expression node; returns a Python value or Unknown."""
    try:
        return _ev(expr, env or {}, resolve or (lambda n: Unknown(f'unbound {n}')))
    except _Stop as s:
        return Unknown(s.why)
    except RecursionError:
        return Unknown('recursion')


def module_consts(module, repo, _stack=()):
    """Fold the module-level assignments of `module` sequentially."""
    key = ('consts', module.name)
    if key in repo._cache:
        return repo._cache[key]
    env: dict = {}
    repo._cache[key] = env   # allow (harmless) cycles

    def resolve(name):
        imp = module.imports.get(name)
        if imp and imp[0] == 'obj' and imp[1] in repo.modules and imp[1] != module.name:
            other = module_consts(repo.modules[imp[1]], repo)
            if imp[2] in other:
                return other[imp[2]]
        return Unknown(f'unbound {name}')

    def flagclass(node):
        bases = [ast.unparse(b) for b in node.bases]
        if not any(b.split('.')[-1] in ('Flag', 'IntFlag') for b in bases):
            return None
        members = {'__flagclass__': True}
        bit = 1
        for s in node.body:
            if isinstance(s, ast.Assign) and len(s.targets) == 1 and isinstance(s.targets[0], ast.Name):
                v = s.value
                if isinstance(v, ast.Call) and ast.unparse(v.func).split('.')[-1] == 'auto':
                    members[s.targets[0].id] = FlagVal(bit)
                    bit <<= 1
                else:
                    members[s.targets[0].id] = evaluate(v, {k: x for k, x in members.items()}, resolve)
        return members

    def run(stmts):
        for s in stmts:
            if isinstance(s, ast.ClassDef):
                fc = flagclass(s)
                if fc is not None:
                    env[s.name] = fc
                else:
                    env[s.name] = Unknown('class')
            elif isinstance(s, ast.Assign):
                val = evaluate(s.value, env, resolve)
                for t in s.targets:
                    if isinstance(t, ast.Name):
                        env[t.id] = val
                    elif isinstance(t, ast.Subscript) and isinstance(t.value, ast.Name):
                        base = env.get(t.value.id)
                        k = evaluate(t.slice, env, resolve)
                        if isinstance(base, dict) and not isinstance(k, Unknown) and not isinstance(val, Unknown):
                            base[k] = val
                        elif t.value.id in env:
                            env[t.value.id] = Unknown('subscript store')
                    elif isinstance(t, (ast.Tuple, ast.List)) and not isinstance(val, Unknown):
                        try:
                            _bind(t, val, env)
                        except _Stop:
                            pass
            elif isinstance(s, ast.AnnAssign) and isinstance(s.target, ast.Name) and s.value is not None:
                env[s.target.id] = evaluate(s.value, env, resolve)
            elif isinstance(s, ast.AugAssign) and isinstance(s.target, ast.Name):
                cur = env.get(s.target.id, Unknown('unbound'))
                val = evaluate(ast.BinOp(left=ast.Name(id=s.target.id, ctx=ast.Load()), op=s.op, right=s.value), env, resolve)
                env[s.target.id] = val if not isinstance(cur, Unknown) else Unknown('aug')
            elif isinstance(s, ast.Expr) and isinstance(s.value, ast.Call):
                c = s.value
                if isinstance(c.func, ast.Attribute) and isinstance(c.func.value, ast.Name):
                    recv = env.get(c.func.value.id)
                    if c.func.attr in ('update', 'append', 'extend', 'add') and recv is not None \
                            and not isinstance(recv, Unknown) and c.func.value.id in env:
                        args = [evaluate(a, env, resolve) for a in c.args]
                        if any(isinstance(a, Unknown) for a in args):
                            env[c.func.value.id] = Unknown(f'{c.func.attr} with unknown')
                        else:
                            try:
                                getattr(recv, c.func.attr)(*args)
                            except Exception:  # noqa: BLE001
                                env[c.func.value.id] = Unknown(c.func.attr)
            elif isinstance(s, ast.If):
                t = evaluate(s.test, env, resolve)
                if isinstance(t, Unknown):
                    # both branches may bind: mark assigned names unknown
                    for n in ast.walk(s):
                        if isinstance(n, ast.Name) and isinstance(n.ctx, ast.Store):
                            env[n.id] = Unknown('conditional')
                else:
                    run(s.body if t else s.orelse)
            elif isinstance(s, (ast.FunctionDef, ast.AsyncFunctionDef)):
                env.setdefault(s.name, Unknown('function'))
    run(module.tree.body)
    return env


def const(repo, modshort, name):
    """value of module constant; AnalysisError-free: returns Unknown when it cannot fold."""
    m = repo.mod(modshort)
    env = module_consts(m, repo)
    if name not in env:
        return Unknown(f'{modshort}.{name} not defined')
    return env[name]
