"""Obligation arming (thorough tier) and self-test support.

Every variant is an in-memory overlay of /repo (never written to disk, nothing executed): a curated text edit from
selftest/corpus/*.py, or a systematically generated instance-negating edit (delete one lexicon filter, swap two row
values, commit after one statement, drop one ON DELETE CASCADE ...).  A rule is *armed* on an instance when the edit
that negates it makes the rule report a finding the unchanged tree does not have."""
from __future__ import annotations
import ast
import glob
import importlib.util
import os
import re
from concurrent.futures import ProcessPoolExecutor

from .src import Repo, AnalysisError, REPO_ROOT

VERIF = os.path.dirname(os.path.dirname(os.path.abspath(__file__)))


def load_corpus(pid=None):
    out = []
    for path in sorted(glob.glob(os.path.join(VERIF, 'selftest', 'corpus', 'c*.py'))):
        fid = os.path.basename(path)[:-3].upper()
        spec = importlib.util.spec_from_file_location('corpus_' + fid, path)
        mod = importlib.util.module_from_spec(spec)
        spec.loader.exec_module(mod)
        for m in mod.MUTANTS:
            m = dict(m)
            m.setdefault('property', fid)
            m['name'] = f"{m['property']}/{m['name']}"
            m['source'] = os.path.basename(path)
            out.append(m)
    if pid:
        out = [m for m in out if m['property'] == pid]
    return out


def apply_edits(edits, root=None):
    root = root or REPO_ROOT
    overlay = {}
    for e in edits:
        rel = e['file']
        src = overlay.get(rel)
        if src is None:
            try:
                with open(os.path.join(root, rel), encoding='utf-8') as fh:
                    src = fh.read()
            except OSError as exc:
                return None, f'{rel}: {exc}'
        cnt = src.count(e['old'])
        if cnt != e.get('count', 1):
            return None, f'{rel}: pattern matches {cnt} times (expected {e.get("count", 1)}): {e["old"][:50]!r}'
        overlay[rel] = src.replace(e['old'], e['new'])
    return overlay, None


def findings_of(pid, overlay):
    from .runtime import run_rules, Ctx
    ctx = Ctx(Repo(overlay=overlay))
    results, errors = run_rules(pid, ctx)
    keys = {}
    for r in results:
        for f in r.findings:
            keys[(f.rule, f.key)] = f.message
    return keys, errors


_base = {}


def base(pid):
    if pid not in _base:
        _base[pid] = findings_of(pid, None)
    return _base[pid]


def run_variant(m):
    """-> (name, status, info) with status ok / FAIL / SKIP"""
    pid = m['property']
    try:
        if 'overlay' in m:
            overlay, err = m['overlay'], None
        else:
            overlay, err = apply_edits(m['edits'])
        if err:
            return m['name'], 'SKIP', err
        for rel, src in overlay.items():
            if rel.endswith('.py'):
                try:
                    ast.parse(src)
                except SyntaxError as exc:
                    return m['name'], 'SKIP', f'variant does not parse: {exc}'
        bkeys, berr = base(pid)
        try:
            keys, errors = findings_of(pid, overlay)
        except AnalysisError as exc:
            keys, errors = {}, [str(exc)]
        new = {k: v for k, v in keys.items() if k not in bkeys}
        exp = m['expect']
        if exp == 'silent':
            if new or (errors and not berr):
                return m['name'], 'FAIL', f'expected silent, got {list(new)[:3]} errors={errors[:2]}'
            return m['name'], 'ok', 'silent'
        rules = {k[0] for k in new}
        want = exp if isinstance(exp, list) else [exp]
        hits = [k for k in new if any(k[0] == w or k[0].startswith(w) for w in want)]
        if hits:
            return m['name'], 'ok', f'{hits[0][0]} [{hits[0][1][:70]}]'
        if m.get('accept_error') and errors and not berr:
            return m['name'], 'ok', f'analysis error: {errors[0][:80]}'
        return m['name'], 'FAIL', f'expected {want}, new findings {sorted(rules)} errors={[e[:100] for e in errors[:2]]}'
    except Exception as exc:  # noqa: BLE001
        import traceback
        return m['name'], 'FAIL', f'exception {type(exc).__name__}: {exc} {traceback.format_exc(limit=3)}'


# ---------------------------------------------------------------------------
# systematic instance-negating edits

def _read(rel):
    with open(os.path.join(REPO_ROOT, rel), encoding='utf-8') as fh:
        return fh.read()


def _nth_replace(src, pattern, n, repl):
    ms = list(re.finditer(pattern, src))
    if n >= len(ms):
        return None
    m = ms[n]
    return src[:m.start()] + repl + src[m.end():]


def gen_c04():
    """delete each conjunctive lexicon filter of wn/_queries.py in turn."""
    rel = 'wn/_queries.py'
    src = _read(rel)
    out = []
    pats = [
        (r"\n\s*AND (?:\w+\.)?lexicon_rowid IN lexrowids", 'cte-filter'),
        (r"\n\s*AND (?:\w+\.)?lexicon_rowid IN \(\{_qs\(lexicon_rowids\)\}\)", 'in-list-filter'),
    ]
    for pat, label in pats:
        for i, m in enumerate(re.finditer(pat, src)):
            new = src[:m.start()] + src[m.end():]
            line = src[:m.start()].count('\n') + 2
            out.append({'name': f'C04/auto:{label}#{i}@line{line}', 'property': 'C04', 'overlay': {rel: new},
                        'expect': ['C04-R1'], 'kind': 'delete one lexicon filter'})
    return out


def gen_c06():
    """commit after each executemany / execute of the importer."""
    rel = 'wn/_add.py'
    src = _read(rel)
    out = []
    lines = src.split('\n')
    for i, ln in enumerate(lines):
        m = re.match(r'^(\s+)cur\.(executemany|execute)\(', ln)
        if not m:
            continue
        # find the end of the statement (balanced parentheses)
        depth = 0
        j = i
        while j < len(lines):
            depth += lines[j].count('(') - lines[j].count(')')
            if depth <= 0:
                break
            j += 1
        if lines[i].strip().startswith('cur.execute') and ('=' in lines[i].split('cur.')[0]):
            continue
        new_lines = lines[:j + 1] + [f'{m.group(1)}cur.connection.commit()'] + lines[j + 1:]
        out.append({'name': f'C06/auto:commit-after-statement@line{i + 1}', 'property': 'C06', 'overlay': {rel: '\n'.join(new_lines)},
                    'expect': ['C06-R1', 'C06-R3', 'C19-R4'], 'kind': 'commit after one statement'})
    return out


def gen_c05():
    """drop each ON DELETE CASCADE / SET NULL of schema.sql in turn."""
    rel = 'wn/schema.sql'
    src = _read(rel)
    out = []
    for i, m in enumerate(re.finditer(r' ON DELETE (CASCADE|SET NULL)', src)):
        new = src[:m.start()] + src[m.end():]
        line = src[:m.start()].count('\n') + 1
        out.append({'name': f'C05/auto:drop-on-delete#{i}@line{line}', 'property': 'C05', 'overlay': {rel: new}, 'expect': ['C05-R1'],
                    'kind': 'drop one ON DELETE action'})
    return out


def gen_c01():
    """swap each adjacent pair of distinct value expressions in the rows the importer binds to its INSERTs."""
    from .runtime import Ctx
    from .rowshape import insert_bindings
    rel = 'wn/_add.py'
    src = _read(rel)
    lines = src.split('\n')
    offs = [0]
    for ln in lines:
        offs.append(offs[-1] + len(ln) + 1)

    def pos(node, end=False):
        return offs[(node.end_lineno if end else node.lineno) - 1] + (node.end_col_offset if end else node.col_offset)
    out = []
    seen = set()
    ctx = Ctx(Repo())
    for b in insert_bindings(ctx):
        if b.func.module.relpath != rel or not b.row.elts:
            continue
        elts = b.row.elts
        if any(isinstance(e, ast.Starred) or not hasattr(e, 'lineno') for e in elts):
            continue
        for a, c in zip(elts, elts[1:]):
            ta, tb = src[pos(a):pos(a, True)], src[pos(c):pos(c, True)]
            if ta == tb or (pos(a), pos(c)) in seen or pos(a, True) > pos(c):
                continue
            if isinstance(a, ast.Constant) and isinstance(c, ast.Constant):
                continue
            seen.add((pos(a), pos(c)))
            new = src[:pos(a)] + tb + src[pos(a, True):pos(c)] + ta + src[pos(c, True):]
            out.append({'name': f'C01/auto:swap@{b.func.name}:{b.table}:line{a.lineno}:{ta[:18]}<->{tb[:18]}', 'property': 'C01',
                        'overlay': {rel: new}, 'expect': ['C01-R2', 'C01-R3', 'C01-R1', 'C01-R5'], 'kind': 'swap two adjacent row values'})
    return out


def gen_c16():
    """remove each sorted(...) that sanitises a set-ordered value (sorted(x) -> list(x))."""
    out = []
    for rel in ('wn/_add.py', 'wn/taxonomy.py', 'wn/validate.py', 'wn/ic.py', 'wn/_export.py'):
        src = _read(rel)
        for i, m in enumerate(re.finditer(r'\bsorted\((?=[A-Za-z_]+\))', src)):
            new = src[:m.start()] + 'list(' + src[m.end():]
            line = src[:m.start()].count('\n') + 1
            out.append({'name': f'C16/auto:unsort#{i}@{rel}:line{line}', 'property': 'C16', 'overlay': {rel: new}, 'expect': ['C16-R1'],
                        'kind': 'replace sorted(set) by list(set)', 'optional': True})
    return out


GENERATORS = {'C01': gen_c01, 'C04': gen_c04, 'C05': gen_c05, 'C06': gen_c06, 'C16': gen_c16}


def variants_for(pid, with_seeded=True):
    vs = load_corpus(pid)
    g = GENERATORS.get(pid)
    if g:
        try:
            vs.extend(g())
        except (OSError, SyntaxError):
            pass
    return vs


def arm(pid, jobs=None):
    vs = variants_for(pid)
    if not vs:
        return {'armed': 0, 'variants': 0, 'failed': [], 'skipped': 0, 'samples': []}
    jobs = jobs or min(16, os.cpu_count() or 4)
    base(pid)
    with ProcessPoolExecutor(max_workers=jobs) as ex:
        results = list(ex.map(run_variant, vs))
    failed = []
    for (name, status, info), v in zip(results, vs):
        if status == 'FAIL' and not v.get('optional'):
            failed.append(f'{name}: {info}')
    return {
        'variants': len(vs),
        'armed': sum(1 for r in results if r[1] == 'ok'),
        'skipped': sum(1 for r in results if r[1] == 'SKIP'),
        'not_detected_optional': [r[0] for r, v in zip(results, vs) if r[1] == 'FAIL' and v.get('optional')],
        'failed': failed,
        'samples': [f'{r[0]} -> {r[2]}' for r in results[:8]],
    }


def patch_overlay_from_diff(patch_path, root=None):
    """apply a unified diff to a scratch copy of the touched files (outside /repo and /verif) and return the overlay."""
    import shutil
    import subprocess
    import tempfile
    root = root or REPO_ROOT
    patch_path = os.path.abspath(patch_path)
    files = re.findall(r'^\+\+\+ b/(\S+)', open(patch_path).read(), flags=re.M)
    tmp = tempfile.mkdtemp(prefix='wnst-')
    try:
        for rel in files:
            os.makedirs(os.path.dirname(os.path.join(tmp, rel)), exist_ok=True)
            if os.path.exists(os.path.join(root, rel)):
                shutil.copy(os.path.join(root, rel), os.path.join(tmp, rel))
        r = subprocess.run(['patch', '-p1', '-s', '--no-backup-if-mismatch', '-d', tmp, '-i', patch_path], capture_output=True, text=True)
        if r.returncode != 0:
            return None, f'patch does not apply to the current tree: {(r.stdout + r.stderr)[:200]}'
        overlay = {}
        for rel in files:
            pth = os.path.join(tmp, rel)
            if os.path.exists(pth):
                with open(pth, encoding='utf-8') as fh:
                    overlay[rel] = fh.read()
        return overlay, None
    finally:
        shutil.rmtree(tmp, ignore_errors=True)
