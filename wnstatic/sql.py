"""Structural reader for the SQL dialect embedded in wn/ (templates with
placeholder-group markers).  Hand-written tokenizer with parenthesis scoping;
the SQLite compiler (schema.explain) cross-checks it."""
from __future__ import annotations
import re

MARK = '\x00'
_TOK = re.compile(
    r"\x00[^\x00]*\x00"          # placeholder-group marker
    r"|'(?:[^']|'')*'"           # 'string'
    r'|"(?:[^"]|"")*"'           # "string" (sqlite accepts it as a literal)
    r"|:[A-Za-z_][A-Za-z_0-9]*"  # :named
    r"|\|\||<=|>=|<>|!=|=="
    r"|[A-Za-z_][A-Za-z_0-9]*"
    r"|[0-9]+(?:\.[0-9]+)?"
    r"|\S")

KEYWORDS = {'SELECT', 'FROM', 'JOIN', 'WHERE', 'AND', 'OR', 'NOT', 'IN', 'ON', 'AS', 'WITH', 'RECURSIVE',
            'VALUES', 'INSERT', 'INTO', 'UPDATE', 'SET', 'DELETE', 'ORDER', 'BY', 'LIMIT', 'DISTINCT',
            'UNION', 'GROUP', 'HAVING', 'CONFLICT', 'DO', 'IGNORE', 'REPLACE', 'NULL', 'ISNULL', 'GLOB',
            'LEFT', 'INNER', 'OUTER', 'CROSS', 'PRAGMA', 'IS', 'LIKE', 'DESC', 'ASC', 'OFFSET', 'EXISTS',
            'CASE', 'WHEN', 'THEN', 'ELSE', 'END', 'BEGIN', 'COMMIT', 'ROLLBACK', 'SAVEPOINT', 'RELEASE',
            'CREATE', 'DROP', 'ALTER', 'TABLE', 'INDEX', 'ALL', 'EXCLUDED', 'NOTHING', 'COALESCE', 'IFNULL',
            'USING', 'NATURAL', 'BETWEEN', 'ATTACH', 'DETACH', 'VACUUM', 'REINDEX', 'ANALYZE', 'TRIGGER', 'VIEW'}


def marker(kind, name):
    return f'{MARK}{kind}:{name}{MARK}'


def is_marker(tok):
    return tok.startswith(MARK)


def marker_parts(tok):
    kind, name = tok.strip(MARK).split(':', 1)
    return kind, name


def render(sql, n=2):
    """concrete text for the SQLite compiler: each group becomes n placeholders."""
    def rep(m):
        kind = m.group(1)
        return ','.join(['?'] * n) if kind == 'qs' else ','.join(['(?)'] * n)
    return re.sub(MARK + r'(qs|vs):[^\x00]*' + MARK, rep, sql)


class Occ:
    """one table occurrence in a FROM/JOIN of some (sub)query scope."""
    __slots__ = ('scope', 'table', 'alias', 'pos', 'filters', 'kind')

    def __init__(self, scope, table, alias, pos):
        self.scope, self.table, self.alias, self.pos = scope, table, alias, pos
        self.filters = []   # list of source names (python sequence feeding the lexicon filter)
        self.kind = 'table'

    def __repr__(self):
        return f'{self.table} AS {self.alias}@{self.scope} filters={self.filters}'


class Placeholder:
    __slots__ = ('kind', 'name', 'context', 'pos')

    def __init__(self, kind, name, context, pos):
        self.kind, self.name, self.context, self.pos = kind, name, context, pos

    def __repr__(self):
        return f'{self.kind}:{self.name}[{self.context}]'


class Stmt:
    def __init__(self, text):
        self.text = text
        self.toks = _TOK.findall(text)
        self.up = [t.upper() if not is_marker(t) and not t.startswith(("'", '"')) else t for t in self.toks]
        self._scan_parens()
        self._verb()
        self._ctes()
        self._occurrences()
        self._placeholders()

    # -- parentheses / scopes -------------------------------------------------
    def _scan_parens(self):
        n = len(self.toks)
        self.depth = [0] * n
        self.match = {}
        self.group_of = [0] * n      # id of innermost paren group containing token (0 = top)
        self.group_open = {0: -1}
        self.group_parent = {0: None}
        stack = [0]
        d = 0
        gid = 0
        opens = []
        for i, t in enumerate(self.toks):
            if t == '(':
                gid += 1
                self.group_parent[gid] = stack[-1]
                self.group_open[gid] = i
                self.depth[i] = d
                self.group_of[i] = stack[-1]
                stack.append(gid)
                opens.append(i)
                d += 1
            elif t == ')':
                d -= 1
                if len(stack) > 1:
                    stack.pop()
                self.depth[i] = d
                self.group_of[i] = stack[-1]
                if opens:
                    o = opens.pop()
                    self.match[o] = i
                    self.match[i] = o
            else:
                self.depth[i] = d
                self.group_of[i] = stack[-1]
        # a group is a query scope if its first token is SELECT (or WITH); group 0 always
        self.query_groups = {0}
        for g, o in self.group_open.items():
            if g and o + 1 < n and self.up[o + 1] in ('SELECT', 'WITH'):
                self.query_groups.add(g)

    def qscope(self, i):
        g = self.group_of[i]
        while g not in self.query_groups:
            g = self.group_parent[g]
        return g

    def group_range(self, g):
        if g == 0:
            return 0, len(self.toks)
        o = self.group_open[g]
        return o + 1, self.match.get(o, len(self.toks))

    # -- verb ----------------------------------------------------------------------
    def _verb(self):
        self.verb = None
        self.or_clause = None
        self.target = None
        self.main_pos = 0
        i = 0
        n = len(self.toks)
        while i < n:
            u = self.up[i]
            if self.depth[i] == 0 and u in ('SELECT', 'INSERT', 'UPDATE', 'DELETE', 'PRAGMA', 'REPLACE', 'CREATE',
                                            'DROP', 'ALTER', 'BEGIN', 'COMMIT', 'ROLLBACK', 'SAVEPOINT', 'RELEASE',
                                            'ATTACH', 'DETACH', 'VACUUM', 'REINDEX', 'ANALYZE', 'END'):
                self.verb = u
                self.main_pos = i
                break
            i += 1
        if self.verb in ('INSERT', 'REPLACE'):
            j = self.main_pos + 1
            if self.verb == 'REPLACE':
                self.or_clause = 'REPLACE'
                self.verb = 'INSERT'
            if j < n and self.up[j] == 'OR':
                self.or_clause = self.up[j + 1]
                j += 2
            if j < n and self.up[j] == 'INTO':
                self.target = self.toks[j + 1]
        elif self.verb == 'UPDATE':
            j = self.main_pos + 1
            if j < n and self.up[j] == 'OR':
                self.or_clause = self.up[j + 1]
                j += 2
            self.target = self.toks[j] if j < n else None
        elif self.verb == 'DELETE':
            j = self.main_pos + 1
            if j < n and self.up[j] == 'FROM':
                self.target = self.toks[j + 1]
        elif self.verb == 'PRAGMA':
            self.target = self.toks[self.main_pos + 1] if self.main_pos + 1 < n else None

    @property
    def is_write(self):
        return self.verb not in ('SELECT', 'PRAGMA', None)

    # -- CTEs ---------------------------------------------------------------------
    def _ctes(self):
        """name -> (group id of the body, kind) for `WITH name(cols) AS (body)`"""
        self.ctes = {}
        n = len(self.toks)
        for i, u in enumerate(self.up):
            if u != 'WITH':
                continue
            j = i + 1
            if j < n and self.up[j] == 'RECURSIVE':
                j += 1
            while j < n:
                name = self.toks[j]
                if not re.match(r'[A-Za-z_]', name):
                    break
                j += 1
                if j < n and self.toks[j] == '(':   # column list
                    j = self.match.get(j, j) + 1
                if j < n and self.up[j] == 'AS':
                    j += 1
                if j < n and self.toks[j] == '(':
                    g = self.group_of[j + 1] if j + 1 < n else 0
                    body_first = self.up[j + 1] if j + 1 < n else ''
                    src = None
                    if body_first == 'VALUES' and j + 2 < n and is_marker(self.toks[j + 2]):
                        src = marker_parts(self.toks[j + 2])[1]
                    self.ctes[name] = {'group': g, 'values_of': src, 'open': j}
                    j = self.match.get(j, j) + 1
                else:
                    break
                if j < n and self.toks[j] == ',':
                    j += 1
                    continue
                break

    # -- table occurrences and lexicon filters ----------------------------------
    def _occurrences(self):
        self.occs: list[Occ] = []
        n = len(self.toks)
        for i, u in enumerate(self.up):
            if u in ('FROM', 'JOIN') and i + 1 < n and re.match(r'[A-Za-z_]', self.toks[i + 1]) \
                    and self.up[i + 1] not in KEYWORDS:
                if u == 'FROM' and i > 0 and self.up[i - 1] == 'DELETE':
                    pass
                name = self.toks[i + 1]
                alias = name
                if i + 3 < n and self.up[i + 2] == 'AS':
                    alias = self.toks[i + 3]
                elif i + 2 < n and re.match(r'[A-Za-z_]', self.toks[i + 2]) and self.up[i + 2] not in KEYWORDS:
                    alias = self.toks[i + 2]
                o = Occ(self.qscope(i), name, alias, i)
                if name in self.ctes:
                    o.kind = 'cte'
                self.occs.append(o)
        # derived-table aliases:  JOIN ( SELECT ... ) AS s
        self.derived = {}
        for g in self.query_groups:
            if g == 0:
                continue
            o = self.group_open[g]
            c = self.match.get(o)
            if c is not None and c + 2 < n and self.up[c + 1] == 'AS':
                self.derived[self.toks[c + 2]] = g

    def lexicon_filters(self, schema, column='lexicon_rowid'):
        """attach to each occurrence the sources of conjunctive `<col> IN (...)` filters that bind it.
        Returns list of (scope, qualifier, source, conjunctive?)."""
        n = len(self.toks)
        found = []
        for i, t in enumerate(self.toks):
            if t != column or i + 1 >= n:
                continue
            neg = False
            j = i + 1
            if self.up[j] == 'NOT':
                neg = True
                j += 1
            if j >= n or self.up[j] != 'IN':
                continue
            qual = self.toks[i - 2] if i >= 2 and self.toks[i - 1] == '.' else None
            src = None
            k = j + 1
            if k < n and self.toks[k] == '(' and k + 1 < n and is_marker(self.toks[k + 1]) \
                    and self.match.get(k) == k + 2:
                src = marker_parts(self.toks[k + 1])[1]
            elif k < n and self.toks[k] in self.ctes and self.ctes[self.toks[k]]['values_of']:
                src = self.ctes[self.toks[k]]['values_of']
            if src is None or neg:
                continue
            conj = self._conjunctive(i - 2 if qual else i)
            found.append((self.qscope(i), qual, src, conj, i))
        for sc, qual, src, conj, pos in found:
            if not conj:
                continue
            cands = [o for o in self.occs if o.scope == sc and o.kind == 'table']
            if qual is not None:
                for o in cands:
                    if o.alias == qual:
                        o.filters.append(src)
            else:
                have = [o for o in cands if schema.has_col(o.table, column)]
                if len(have) == 1:
                    have[0].filters.append(src)
        return found

    def _conjunctive(self, i):
        """is the predicate starting at token i in a top-level AND position of its WHERE/ON clause?"""
        sc = self.qscope(i)
        lo, hi = self.group_range(sc)
        base = self.depth[lo] if lo < len(self.toks) else 0
        if self.depth[i] != base:
            return False
        # walk back to the clause head
        j = i - 1
        head = None
        while j >= lo:
            if self.depth[j] == base:
                u = self.up[j]
                if u in ('WHERE', 'ON', 'HAVING'):
                    head = j
                    break
                if u in ('SELECT', 'FROM', 'SET', 'VALUES'):
                    return False
            j -= 1
        if head is None:
            return False
        # clause end
        k = head + 1
        end = hi
        while k < hi:
            if self.depth[k] == base and self.up[k] in ('JOIN', 'WHERE', 'GROUP', 'ORDER', 'LIMIT', 'UNION', 'LEFT',
                                                        'INNER', 'CROSS', 'HAVING') and k > head:
                end = k
                break
            k += 1
        if not (head < i < end):
            return False
        for k in range(head + 1, end):
            if self.depth[k] == base and self.up[k] == 'OR':
                return False
        if i - 1 > head and self.up[i - 1] == 'NOT':
            return False
        return True

    # -- placeholders ----------------------------------------------------------
    def _placeholders(self):
        self.placeholders: list[Placeholder] = []
        n = len(self.toks)
        for i, t in enumerate(self.toks):
            if t == '?':
                self.placeholders.append(Placeholder('one', None, self._ph_context(i), i))
            elif is_marker(t):
                kind, name = marker_parts(t)
                self.placeholders.append(Placeholder('many', name, self._ph_context(i), i))
            elif t.startswith(':') and len(t) > 1:
                self.placeholders.append(Placeholder('named', t[1:], self._ph_context(i), i))

    def _ph_context(self, i):
        # IN ( <here> )
        if i >= 2 and self.toks[i - 1] == '(' and self.up[i - 2] == 'IN':
            return 'in-list'
        if i >= 1 and self.up[i - 1] == 'VALUES':
            # CTE body?
            for name, c in self.ctes.items():
                lo, hi = self.group_range(c['group'])
                if lo <= i < hi:
                    uses = [k for k, t in enumerate(self.toks) if t == name and k != c['open'] - 2
                            and not (lo <= k < hi)]
                    decl = [k for k in uses if k + 1 < len(self.toks) and (self.toks[k + 1] == '(' or self.up[k + 1] == 'AS')
                            and k < c['open']]
                    real = [k for k in uses if k not in decl]
                    if real and all(k >= 1 and self.up[k - 1] == 'IN' for k in real):
                        return 'in-cte'
                    return 'cte-values'
            return 'values'
        return 'scalar'

    # -- INSERT slots ----------------------------------------------------------
    def insert_slots(self):
        """top-level comma-separated value expressions of a positional INSERT ... VALUES (...)"""
        if self.verb != 'INSERT':
            return None
        n = len(self.toks)
        for i in range(self.main_pos, n):
            if self.up[i] == 'VALUES' and self.depth[i] == 0 and i + 1 < n and self.toks[i + 1] == '(':
                o = i + 1
                c = self.match.get(o, n)
                slots, cur = [], []
                for k in range(o + 1, c):
                    if self.toks[k] == ',' and self.depth[k] == self.depth[o] + 1:
                        slots.append(cur)
                        cur = []
                    else:
                        cur.append(k)
                slots.append(cur)
                return slots
        return None

    def insert_columns(self):
        """explicit column list of INSERT INTO t (a, b) ..., or None."""
        if self.verb != 'INSERT' or self.target is None:
            return None
        n = len(self.toks)
        for i in range(self.main_pos, n):
            if self.up[i] == 'INTO' and i + 2 < n and self.toks[i + 2] == '(':
                o = i + 2
                c = self.match.get(o, n)
                return [self.toks[k] for k in range(o + 1, c) if self.toks[k] != ',']
            if self.up[i] == 'VALUES':
                break
        return None

    def on_conflict(self):
        """(target columns, action, SET columns) or None"""
        n = len(self.toks)
        for i in range(n - 1):
            if self.up[i] == 'ON' and self.up[i + 1] == 'CONFLICT':
                j = i + 2
                tcols = []
                if j < n and self.toks[j] == '(':
                    c = self.match.get(j, n)
                    tcols = [self.toks[k] for k in range(j + 1, c) if self.toks[k] != ',']
                    j = c + 1
                if j < n and self.up[j] == 'DO':
                    j += 1
                action = self.up[j] if j < n else None
                setcols = []
                if action == 'UPDATE' and j + 1 < n and self.up[j + 1] == 'SET':
                    k = j + 2
                    d0 = self.depth[k] if k < n else 0
                    expect = True
                    while k < n:
                        if self.depth[k] == d0:
                            if self.up[k] == 'WHERE':
                                break
                            if expect and re.match(r'[A-Za-z_]', self.toks[k]):
                                setcols.append(self.toks[k])
                                expect = False
                            elif self.toks[k] == ',':
                                expect = True
                        k += 1
                return tcols, action, setcols
        return None

    def update_set_columns(self):
        if self.verb != 'UPDATE':
            return []
        n = len(self.toks)
        cols = []
        for i in range(self.main_pos, n):
            if self.up[i] == 'SET' and self.depth[i] == 0:
                k = i + 1
                expect = True
                while k < n:
                    if self.depth[k] == 0:
                        if self.up[k] == 'WHERE':
                            break
                        if expect and re.match(r'[A-Za-z_]', self.toks[k]):
                            cols.append(self.toks[k])
                            expect = False
                        elif self.toks[k] == ',':
                            expect = True
                    k += 1
                break
        return cols

    # -- top-level clauses of the main SELECT ----------------------------------
    def top_clause(self, *words):
        """token index of the first top-level (depth 0) occurrence of the keyword sequence."""
        n = len(self.toks)
        for i in range(self.main_pos, n):
            if self.depth[i] == 0 and self.up[i] == words[0]:
                if all(i + k < n and self.up[i + k] == w for k, w in enumerate(words)):
                    return i
        return None

    def clause_text(self, start_words, stop=('LIMIT', 'UNION')):
        i = self.top_clause(*start_words)
        if i is None:
            return None
        out = []
        for k in range(i + len(start_words), len(self.toks)):
            if self.depth[k] == 0 and self.up[k] in stop:
                break
            out.append(self.toks[k])
        return ' '.join(out)

    def order_by(self):
        return self.clause_text(('ORDER', 'BY'))

    def limit(self):
        return self.clause_text(('LIMIT',), stop=('OFFSET',))

    def distinct(self):
        i = self.main_pos
        return self.verb == 'SELECT' and i + 1 < len(self.toks) and self.up[i + 1] == 'DISTINCT'

    def select_list(self):
        """expressions of the main SELECT list (token-joined strings)."""
        if self.verb != 'SELECT':
            return None
        i = self.main_pos + 1
        if i < len(self.toks) and self.up[i] == 'DISTINCT':
            i += 1
        items, cur = [], []
        k = i
        while k < len(self.toks):
            if self.depth[k] == 0 and self.up[k] == 'FROM':
                break
            if self.depth[k] == 0 and self.toks[k] == ',':
                items.append(cur)
                cur = []
            else:
                cur.append(self.toks[k])
            k += 1
        items.append(cur)
        return [' '.join(x) for x in items]

    def subselect_list(self, group):
        lo, hi = self.group_range(group)
        if self.up[lo] != 'SELECT':
            return None
        base = self.depth[lo]
        items, cur = [], []
        k = lo + 1
        if self.up[k] == 'DISTINCT':
            k += 1
        while k < hi:
            if self.depth[k] == base and self.up[k] == 'FROM':
                break
            if self.depth[k] == base and self.toks[k] == ',':
                items.append(cur)
                cur = []
            else:
                cur.append(self.toks[k])
            k += 1
        items.append(cur)
        return [' '.join(x) for x in items]

    # -- key-domain agreement -------------------------------------------------------------------------
    def _scope_chain(self, sc):
        out = []
        while sc is not None:
            if sc in self.query_groups:
                out.append(sc)
            sc = self.group_parent.get(sc)
        return out

    def _colref_at(self, i):
        """a column reference starting at token i: `alias . col` or bare `col` -> (qualifier, column, end index) or None"""
        n = len(self.toks)
        ident = re.compile(r'[A-Za-z_][A-Za-z_0-9]*$')
        if i >= n or not ident.match(self.toks[i]) or self.up[i] in KEYWORDS or is_marker(self.toks[i]):
            return None
        if i + 2 < n and self.toks[i + 1] == '.' and ident.match(self.toks[i + 2]):
            return self.toks[i], self.toks[i + 2], i + 3
        if i + 1 < n and self.toks[i + 1] == '(':
            return None     # function call
        if i > 0 and self.toks[i - 1] == '.':
            return None
        return None, self.toks[i], i + 1

    def resolve_column(self, schema, qual, col, at):
        """-> table name of the column referenced at token `at`, looking through the enclosing query scopes; None if unknown"""
        for sc in self._scope_chain(self.qscope(at)):
            cands = [o for o in self.occs if o.scope == sc and o.kind == 'table']
            if qual is not None:
                for o in cands:
                    if o.alias == qual:
                        return o.table
                continue
            have = [o for o in cands if col == 'rowid' or schema.has_col(o.table, col)]
            if len(have) == 1:
                return have[0].table
            if len(have) > 1:
                return None
        return None

    def key_comparisons(self, schema):
        """column-to-column comparisons of the statement: `a.x = b.y`, `a.x IN (SELECT b.y ...)`
        -> [(left (table, col), right (table, col), token index)] with both sides resolved to schema tables"""
        out = []
        n = len(self.toks)
        for i, t in enumerate(self.toks):
            if t not in ('=', '==') and self.up[i] != 'IN':
                continue
            # left operand ends at i-1
            j = i - 1
            if self.up[i] == 'IN' and j >= 0 and self.up[j] == 'NOT':
                j -= 1
            if j < 0:
                continue
            start = j - 2 if j >= 2 and self.toks[j - 1] == '.' else j
            left = self._colref_at(start)
            if left is None or left[2] != j + 1:
                continue
            if t in ('=', '=='):
                right = self._colref_at(i + 1)
                if right is None:
                    continue
                # `a.x = b.y + 1` and the like are not key comparisons
                if right[2] < n and self.toks[right[2]] in ('+', '-', '*', '/', '||', '('):
                    continue
                rat = i + 1
            else:
                k = i + 1
                if not (k + 1 < n and self.toks[k] == '(' and self.up[k + 1] == 'SELECT'):
                    continue
                g = next((g_ for g_, o in self.group_open.items() if o == k), None)
                items = self.subselect_list(g) if g is not None else None
                if not items or len(items) != 1:
                    continue
                m = k + 2
                if self.up[m] == 'DISTINCT':
                    m += 1
                right = self._colref_at(m)
                if right is None or ' '.join(self.toks[m:right[2]]) != items[0]:
                    continue
                rat = m
            lt = self.resolve_column(schema, left[0], left[1], start)
            rt = self.resolve_column(schema, right[0], right[1], rat)
            if lt is None or rt is None:
                continue
            out.append(((lt, left[1]), (rt, right[1]), i))
        return out

    def inner_on_predicates(self, scope=0):
        """top-level AND-separated predicates of the ON clauses of plain / INNER joins of a scope (for an inner join a condition in
        ON and the same condition in WHERE select the same rows); LEFT / OUTER / CROSS joins are left out."""
        lo, hi = self.group_range(scope)
        if lo >= len(self.toks):
            return []
        base = self.depth[lo]
        preds, cur, collecting = [], [], False
        outer = False
        for k in range(lo, hi):
            if self.depth[k] != base:
                if collecting:
                    cur.append(self.toks[k])
                continue
            u = self.up[k]
            if u in ('LEFT', 'RIGHT', 'FULL', 'OUTER', 'CROSS'):
                outer = True
            if u == 'JOIN':
                if collecting and cur:
                    preds.append(' '.join(cur))
                cur, collecting = [], False
                this_outer, outer = outer, False
                self_outer = this_outer
                continue
            if u == 'ON':
                collecting = not locals().get('self_outer', False)
                cur = []
                continue
            if u in ('WHERE', 'GROUP', 'ORDER', 'LIMIT', 'UNION'):
                if collecting and cur:
                    preds.append(' '.join(cur))
                cur, collecting = [], False
                if u != 'WHERE':
                    break
                continue
            if collecting:
                if u == 'AND':
                    preds.append(' '.join(cur))
                    cur = []
                else:
                    cur.append(self.toks[k])
        if collecting and cur:
            preds.append(' '.join(cur))
        return [p_ for p_ in preds if p_]

    def where_predicates(self, scope=0):
        """top-level AND-separated predicates of the WHERE clause of a scope (token strings)."""
        lo, hi = self.group_range(scope)
        if lo >= len(self.toks):
            return []
        base = self.depth[lo]
        start = None
        for k in range(lo, hi):
            if self.depth[k] == base and self.up[k] == 'WHERE':
                start = k + 1
                break
        if start is None:
            return []
        preds, cur = [], []
        for k in range(start, hi):
            if self.depth[k] == base and self.up[k] in ('GROUP', 'ORDER', 'LIMIT', 'UNION'):
                break
            if self.depth[k] == base and self.up[k] == 'AND':
                preds.append(' '.join(cur))
                cur = []
            else:
                cur.append(self.toks[k])
        preds.append(' '.join(cur))
        return preds
