"""Outcome tables of small loop-free functions.

`outcomes(func_node)` executes the statements of a function abstractly, forking at `if` / `try`, and returns one entry
per way of leaving the function:

    Outcome(kind='return'|'raise'|'fall', guards=[text...], value=text, before=[text...])

* every local that is assigned is *inlined* (substituted by its defining expression) in guards and values, so the table
  does not change when a local is introduced, removed or renamed;
* `before` lists, in execution order, the calls (inlined text) that were evaluated before the exit - used for
  "the error is raised before any value is returned" rules, which inlining alone cannot see;
* loops make a function opaque (`Opaque` is raised): callers fall back to something else.

No value is ever computed; this is a syntactic normal form.
"""
from __future__ import annotations
import ast
from .src import norm


def clone(node):
    """copy of an ast subtree without the `_parent` back links (copy.deepcopy would follow them to the whole module)"""
    if isinstance(node, ast.AST):
        new = type(node)()
        for fld in node._fields:
            if hasattr(node, fld):
                setattr(new, fld, clone(getattr(node, fld)))
        for a in ('lineno', 'col_offset', 'end_lineno', 'end_col_offset'):
            if hasattr(node, a):
                setattr(new, a, getattr(node, a))
        return new
    if isinstance(node, list):
        return [clone(x) for x in node]
    return node


class Opaque(Exception):
    pass


class Outcome:
    __slots__ = ('kind', 'guards', 'value', 'before', 'node')

    def __init__(self, kind, guards, value, before, node):
        self.kind, self.guards, self.value, self.before, self.node = kind, list(guards), value, list(before), node

    def __repr__(self):
        g = ' and '.join(self.guards) or 'always'
        return f'<{self.kind} {self.value} when {g}>'

    def as_tuple(self):
        return (self.kind, tuple(self.guards), self.value)

    def as_key(self):
        return (self.kind, frozenset(self.guards), self.value)


class _Subst(ast.NodeTransformer):
    def __init__(self, env):
        self.env = env

    def visit_Name(self, node):
        if isinstance(node.ctx, ast.Load) and node.id in self.env:
            return clone(self.env[node.id])
        return node

    def visit_Lambda(self, node):
        # parameters of the lambda shadow
        shadow = {a.arg for a in node.args.args}
        inner = _Subst({k: v for k, v in self.env.items() if k not in shadow})
        node.body = inner.visit(node.body)
        return node

    def _comp(self, node):
        shadow = set()
        for g in node.generators:
            shadow |= {x.id for x in ast.walk(g.target) if isinstance(x, ast.Name)}
        inner = _Subst({k: v for k, v in self.env.items() if k not in shadow})
        for g in node.generators:
            g.iter = inner.visit(g.iter)
            g.ifs = [inner.visit(c) for c in g.ifs]
        for fld in ('elt', 'key', 'value'):
            if hasattr(node, fld):
                setattr(node, fld, inner.visit(getattr(node, fld)))
        return node

    visit_ListComp = visit_SetComp = visit_GeneratorExp = visit_DictComp = _comp


def subst(expr, env):
    return _Subst(env).visit(clone(expr))


def _text(expr, env):
    return norm(subst(expr, env))


def _calls(expr, env):
    """calls evaluated by `expr` (source order), inlined text"""
    out = []
    for n in ast.walk(expr):
        if isinstance(n, ast.Call):
            out.append((getattr(n, 'lineno', 0), getattr(n, 'col_offset', 0), n))
    res = []
    for _, _, n in sorted(out, key=lambda x: x[:2]):
        k = (id(n), id(env))
        t = _text(n, env)
        res.append(t)
    return res


def _neg(t):
    if t.startswith('not (') and t.endswith(')'):
        inner = t[5:-1]
        depth = 0
        ok = True
        for ch in inner:
            if ch == '(':
                depth += 1
            elif ch == ')':
                depth -= 1
                if depth < 0:
                    ok = False
                    break
        if ok and depth == 0:
            return inner
    if t.startswith('not ') and all(c.isalnum() or c in '_.' for c in t[4:]):
        return t[4:]
    return f'not ({t})'


_OUTCOMES = {}


def outcomes(fnode, max_states=64):
    if id(fnode) in _OUTCOMES and _OUTCOMES[id(fnode)][0] is fnode:
        r = _OUTCOMES[id(fnode)][1]
        if isinstance(r, Exception):
            raise r
        return r
    try:
        r = _outcomes(fnode, max_states)
    except Opaque as exc:
        _OUTCOMES[id(fnode)] = (fnode, exc)
        raise
    _OUTCOMES[id(fnode)] = (fnode, r)
    return r


def _outcomes(fnode, max_states=64):
    out = []

    def run(stmts, env, guards, before):
        """-> list of (env, guards, before) states that fall through"""
        states = [(env, guards, before)]
        for st in stmts:
            nxt = []
            for env, guards, before in states:
                nxt.extend(step(st, env, guards, before))
            states = nxt
            if len(states) > max_states:
                raise Opaque('too many paths')
            if not states:
                break
        return states

    def step(st, env, guards, before):
        if isinstance(st, ast.Expr) and isinstance(st.value, ast.Constant):
            return [(env, guards, before)]
        if isinstance(st, (ast.Assign, ast.AnnAssign)):
            if st.value is None:
                return [(env, guards, before)]
            b2 = before + _calls(st.value, env)
            tg = st.targets if isinstance(st, ast.Assign) else [st.target]
            env2 = dict(env)
            v = subst(st.value, env)
            for t in tg:
                if isinstance(t, ast.Name):
                    env2[t.id] = v
                elif isinstance(t, (ast.Tuple, ast.List)) and all(isinstance(e, ast.Name) for e in t.elts):
                    for i, e in enumerate(t.elts):
                        env2[e.id] = ast.Subscript(value=clone(v), slice=ast.Constant(value=i), ctx=ast.Load())
                else:
                    # store into an attribute / subscript: an effect, recorded as a call-like entry
                    b2 = b2 + [f'{_text(t, env)} = {norm(v)}']
            return [(env2, guards, b2)]
        if isinstance(st, ast.AugAssign):
            b2 = before + _calls(st.value, env)
            env2 = dict(env)
            if isinstance(st.target, ast.Name):
                cur = env.get(st.target.id, ast.Name(id=st.target.id, ctx=ast.Load()))
                env2[st.target.id] = ast.BinOp(left=clone(cur), op=st.op, right=subst(st.value, env))
            else:
                b2 = b2 + [f'{_text(st.target, env)} op= {_text(st.value, env)}']
            return [(env2, guards, b2)]
        if isinstance(st, ast.Expr):
            return [(env, guards, before + _calls(st.value, env))]
        if isinstance(st, ast.Return):
            b2 = before + (_calls(st.value, env) if st.value is not None else [])
            out.append(Outcome('return', guards, _text(st.value, env) if st.value is not None else 'None', b2, st))
            return []
        if isinstance(st, ast.Raise):
            b2 = before
            out.append(Outcome('raise', guards, _text(st.exc, env) if st.exc is not None else 're-raise', b2, st))
            return []
        if isinstance(st, ast.If):
            t = _text(st.test, env)
            b2 = before + _calls(st.test, env)
            a = run(st.body, env, guards + [t], b2)
            b = run(st.orelse, env, guards + [_neg(t)], b2)
            return a + b
        if isinstance(st, ast.Try):
            # normal: body + orelse (+ finalbody); each handler: from the state before the try
            res = []
            normal = run(list(st.body) + list(st.orelse), env, guards, before)
            for h in st.handlers:
                ht = norm(h.type) if h.type is not None else 'BaseException'
                res.extend(run(h.body, env, guards + [f'<{ht} raised in: {"; ".join(norm(x) for x in st.body)[:200]}>'], before))
            states = normal + res
            if st.finalbody:
                fin = []
                for e, g, b in states:
                    fin.extend(run(st.finalbody, e, g, b))
                states = fin
            return states
        if isinstance(st, ast.Pass):
            return [(env, guards, before)]
        if isinstance(st, ast.Assert):
            return [(env, guards + [_text(st.test, env)], before + _calls(st.test, env))]
        if isinstance(st, (ast.FunctionDef, ast.AsyncFunctionDef, ast.ClassDef, ast.Import, ast.ImportFrom, ast.Global, ast.Nonlocal)):
            return [(env, guards, before)]
        if isinstance(st, ast.With):
            b2 = list(before)
            env2 = dict(env)
            for it in st.items:
                b2 += _calls(it.context_expr, env)
                if isinstance(it.optional_vars, ast.Name):
                    env2[it.optional_vars.id] = subst(it.context_expr, env)
            return run(st.body, env2, guards, b2)
        raise Opaque(f'{type(st).__name__} at line {getattr(st, "lineno", 0)}')

    body = list(fnode.body)
    for env, guards, before in run(body, {}, [], []):
        out.append(Outcome('fall', guards, 'None', before, fnode))
    return out


def table(fnode):
    """[(kind, guards tuple, value)] sorted by source position of the exit"""
    return [o.as_tuple() for o in sorted(outcomes(fnode), key=lambda o: getattr(o.node, 'lineno', 0))]
