"""SQL extractor: for every execute / executemany / executescript call, the
statement text(s) the enclosing function can send, recovered by abstract
evaluation of the string-building code over all paths of the function.

Abstract values: str (known text, may contain placeholder-group markers),
Sym (opaque python expression), Star (spliced sequence), list/tuple/dict of
those, Unk (string building failed)."""
from __future__ import annotations
import ast
from .src import AnalysisError, norm, walk_no_nested
from .consts import module_consts, evaluate, Unknown
from . import sql as S

EXEC_ATTRS = ('execute', 'executemany', 'executescript')
MAX_PATHS = 30000


class Sym:
    __slots__ = ('text', 'node')

    def __init__(self, text, node=None):
        self.text, self.node = text, node

    def __repr__(self):
        return f'${self.text}'


class Star:
    __slots__ = ('value',)

    def __init__(self, value):
        self.value = value

    def __repr__(self):
        return f'*{self.value!r}'


class Unk:
    __slots__ = ('why',)

    def __init__(self, why):
        self.why = why

    def __repr__(self):
        return f'<?{self.why}>'


class Choice:
    __slots__ = ('options',)

    def __init__(self, options):
        self.options = options


class _HelperChoice:
    """several correlated results of a helper call: [(value, facts about the caller's argument expressions)]"""
    __slots__ = ('options',)

    def __init__(self, options):
        self.options = options


class IfVal:
    __slots__ = ('node',)

    def __init__(self, node):
        self.node = node


class Exec:
    """one executed statement on one path."""
    __slots__ = ('node', 'attr', 'sql', 'params', 'params_node', 'facts')

    def __init__(self, node, attr, sql, params, params_node, facts):
        self.node, self.attr, self.sql, self.params, self.params_node, self.facts = node, attr, sql, params, params_node, facts


_NORET = object()


class Path:
    def __init__(self, env=None, facts=None, execs=None, open_=None):
        self.env = env if env is not None else {}
        self.facts = facts if facts is not None else {}
        self.execs = execs if execs is not None else []
        self.open = open_ if open_ is not None else set()
        self.done = False   # returned / raised
        self.ret = _NORET

    def fork(self):
        def cp(v):
            if isinstance(v, list):
                return list(v)
            if isinstance(v, dict):
                return dict(v)
            return v
        return Path({k: cp(v) for k, v in self.env.items()}, dict(self.facts), list(self.execs), set(self.open))


def _test_key(test):
    neg = False
    while isinstance(test, ast.UnaryOp) and isinstance(test.op, ast.Not):
        neg = not neg
        test = test.operand
    return norm(test), neg


class Evaluator:
    def __init__(self, repo, func, bindings=None):
        self.repo = repo
        self.func = func
        self.module = func.module
        self.consts = module_consts(self.module, repo)
        self.bindings = bindings or {}
        self.loop_depth = 0
        self.want_ret = False
        self.depth = 0

    # -- expressions -------------------------------------------------------
    def const_of(self, name):
        v = self.consts.get(name)
        if v is None:
            imp = self.module.imports.get(name)
            if imp and imp[0] == 'obj' and imp[1] in self.repo.modules:
                v = module_consts(self.repo.modules[imp[1]], self.repo).get(imp[2])
        if isinstance(v, (str, dict, list, tuple, int)) and not isinstance(v, bool):
            return v
        return None

    def expr(self, e, p):
        if isinstance(e, ast.Constant):
            return e.value
        if isinstance(e, ast.Name):
            if e.id in p.env:
                return p.env[e.id]
            c = self.const_of(e.id)
            if c is not None:
                return c
            return Sym(e.id, e)
        if isinstance(e, ast.JoinedStr):
            out = ''
            for v in e.values:
                if isinstance(v, ast.Constant):
                    out += v.value
                else:
                    x = self.expr(v.value, p)
                    if isinstance(x, (IfVal, Choice)):
                        return Unk(f'fstr-fork:{ast.unparse(v.value)}')
                    if isinstance(x, str):
                        out += x
                    else:
                        return Unk(f'fstr:{ast.unparse(v.value)}')
            return out
        if isinstance(e, ast.BinOp) and isinstance(e.op, ast.Add):
            a, b = self.expr(e.left, p), self.expr(e.right, p)
            if isinstance(a, str) and isinstance(b, str):
                return a + b
            if isinstance(a, list) and isinstance(b, list):
                return a + b
            if isinstance(a, (str, Unk)) or isinstance(b, (str, Unk)):
                return Unk('add')
            return Sym(ast.unparse(e), e)
        if isinstance(e, ast.IfExp):
            t = self.truth(e.test, p)
            if t is True:
                return self.expr(e.body, p)
            if t is False:
                return self.expr(e.orelse, p)
            return IfVal(e)
        if isinstance(e, ast.List):
            return [Star(self.expr(x.value, p)) if isinstance(x, ast.Starred) else self.expr(x, p) for x in e.elts]
        if isinstance(e, ast.Tuple):
            return tuple(Star(self.expr(x.value, p)) if isinstance(x, ast.Starred) else self.expr(x, p) for x in e.elts)
        if isinstance(e, ast.Dict):
            if all(isinstance(k, ast.Constant) for k in e.keys):
                return {k.value: self.expr(v, p) for k, v in zip(e.keys, e.values)}
            return Sym(ast.unparse(e), e)
        if isinstance(e, ast.Call):
            f = e.func
            if isinstance(f, ast.Name) and f.id in ('_qs', '_vs') and len(e.args) == 1:
                arg = e.args[0]
                t = self.truth(arg, p)
                if t is False:
                    return ''
                ren = getattr(self, 'rename', None) or {}
                return S.marker(f.id[1:], ren.get(norm(arg), norm(arg)))
            if isinstance(f, ast.Name) and f.id == 'dict' and len(e.args) == 1 and not e.keywords:
                return Sym(ast.unparse(e), e)
            if isinstance(f, ast.Name) and f.id in ('list', 'tuple') and len(e.args) == 1 and not e.keywords and f.id not in p.env:
                x = self.expr(e.args[0], p)
                if isinstance(x, Sym):
                    return [Star(x)] if f.id == 'list' else (Star(x),)
                if isinstance(x, (list, tuple)):
                    return list(x) if f.id == 'list' else tuple(x)
            if isinstance(f, ast.Name):
                hr = self.helper_results(e, p)
                if hr is not None:
                    vals = [v for v, _ in hr]
                    if len(hr) == 1:
                        return vals[0]
                    if all(isinstance(v, str) for v in vals):
                        return Choice(list(dict.fromkeys(vals)))
                    return _HelperChoice(hr)
            if isinstance(f, ast.Attribute):
                if f.attr == 'join' and len(e.args) == 1:
                    sep = self.expr(f.value, p)
                    xs = self.expr(e.args[0], p)
                    if isinstance(sep, str) and isinstance(xs, (list, tuple)) and all(isinstance(x, str) for x in xs):
                        return sep.join(xs)
                    if isinstance(sep, str) and isinstance(xs, (list, tuple)):
                        return Unk('join of non-str')
                    return Sym(ast.unparse(e), e)
                if f.attr in ('strip', 'lstrip', 'rstrip') and not e.args:
                    x = self.expr(f.value, p)
                    if isinstance(x, str):
                        return getattr(x, f.attr)()
                    return Unk('strip') if isinstance(x, Unk) else Sym(ast.unparse(e), e)
                if f.attr == 'format':
                    x = self.expr(f.value, p)
                    if isinstance(x, str):
                        kw = {k.arg: self.expr(k.value, p) for k in e.keywords if k.arg}
                        args = [self.expr(a, p) for a in e.args]
                        if all(isinstance(v, str) for v in kw.values()) and all(isinstance(v, str) for v in args):
                            try:
                                return x.format(*args, **kw)
                            except (KeyError, IndexError, ValueError):
                                return Unk('format')
                        return Unk('format-arg')
                if f.attr == 'get' and e.args:
                    d = self.expr(f.value, p)
                    if isinstance(d, dict) and d and all(isinstance(k, str) for k in d) \
                            and all(isinstance(v, str) for v in d.values()):
                        k = self.expr(e.args[0], p)
                        if isinstance(k, str):
                            if k in d:
                                return d[k]
                            return self.expr(e.args[1], p) if len(e.args) > 1 else None
                        return Choice(list(dict.fromkeys(d.values())))
            return Sym(ast.unparse(e), e)
        if isinstance(e, ast.Subscript):
            base = self.expr(e.value, p)
            if isinstance(base, dict) and isinstance(e.slice, ast.Constant) and e.slice.value in base:
                return base[e.slice.value]
            if isinstance(base, str):
                try:
                    idx = evaluate(e.slice, {})
                    if isinstance(e.slice, ast.Slice):
                        lo = evaluate(e.slice.lower, {}) if e.slice.lower else None
                        hi = evaluate(e.slice.upper, {}) if e.slice.upper else None
                        if not isinstance(lo, Unknown) and not isinstance(hi, Unknown):
                            return base[lo:hi]
                    elif isinstance(idx, int):
                        return base[idx]
                except Exception:  # noqa: BLE001
                    pass
            return Sym(ast.unparse(e), e)
        return Sym(ast.unparse(e), e)

    # -- helper functions of the same module ----------------------------------
    def helper_results(self, e, p):
        """abstract results of calling a module-level function of the same module whose return value takes part in string
        building: [(value, {caller test text: truth})] - one entry per distinct way the helper can return - or None."""
        f = e.func
        if not isinstance(f, ast.Name) or self.depth >= 2 or f.id in p.env:
            return None
        fi = self.module.funcs.get(f.id)
        if fi is None or fi is self.func or fi.cls is not None or '.' in fi.qualname:
            return None
        if any(isinstance(n, (ast.Yield, ast.YieldFrom)) for n in walk_no_nested(fi.node)):
            return None
        if any(isinstance(a, ast.Starred) for a in e.args) or any(k.arg is None for k in e.keywords):
            return None
        a = fi.node.args
        if a.vararg or a.kwarg:
            return None
        params = [x.arg for x in a.posonlyargs + a.args]
        defaults = dict(zip(params[len(params) - len(a.defaults):], a.defaults))
        for x, d in zip(a.kwonlyargs, a.kw_defaults):
            params.append(x.arg)
            if d is not None:
                defaults[x.arg] = d
        bound = dict(zip(params, e.args))
        for k in e.keywords:
            if k.arg not in params:
                return None
            bound[k.arg] = k.value
        q = Path()
        argtext = {}
        for pn in params:
            if pn in bound:
                v = self.expr(bound[pn], p)
                if isinstance(v, (IfVal, Choice)):
                    v = Sym(ast.unparse(bound[pn]), bound[pn])
                if isinstance(v, Sym):
                    # keep the caller's spelling so that placeholder markers / parameter names refer to the caller's expression
                    v = Sym(v.text, v.node)
                q.env[pn] = v
                argtext[pn] = norm(bound[pn])
                t = self.truth(bound[pn], p)
                if t is not None:
                    q.facts[pn] = t
                if isinstance(bound[pn], ast.Name) and bound[pn].id in p.open:
                    q.open.add(pn)
            elif pn in defaults:
                try:
                    q.env[pn] = self.expr(defaults[pn], Path())
                except Exception:  # noqa: BLE001
                    return None
            else:
                return None
        sub = Evaluator(self.repo, fi, self.bindings)
        sub.want_ret = True
        sub.depth = self.depth + 1
        sub.rename = {pn: argtext[pn] for pn in argtext}
        try:
            outs = sub.run(list(fi.node.body), [q])
        except AnalysisError:
            return None
        res = []
        for o in outs:
            if o.ret is _NORET:
                if o.done:
                    continue      # raised
                o.ret = None
            facts = {}
            for k, v in o.facts.items():
                names = _names_of_text(k)
                if names and names <= set(argtext):
                    import re as _re
                    k2 = _re.sub(r'\b(' + '|'.join(_re.escape(n) for n in names) + r')\b', lambda m: argtext[m.group(1)], k)
                    facts[k2] = v
            res.append((o.ret, facts))
        # de-duplicate
        uniq = []
        for v, fc in res:
            key = (repr(v), tuple(sorted(fc.items())))
            if key not in [u[2] for u in uniq]:
                uniq.append((v, fc, key))
        if not uniq or len(uniq) > 12:
            return None
        return [(v, fc) for v, fc, _ in uniq]

    # -- truth folding -------------------------------------------------------
    def tkey(self, test, p):
        """fact key of a test; a name bound to an (opaque) test expression stands for that expression"""
        k, neg = _test_key(test)
        inner = test
        while isinstance(inner, ast.UnaryOp) and isinstance(inner.op, ast.Not):
            inner = inner.operand
        if isinstance(inner, ast.Name):
            v = p.env.get(inner.id)
            if isinstance(v, Sym) and v.node is not None and isinstance(v.node, (ast.Compare, ast.BoolOp, ast.UnaryOp)):
                k2, neg2 = _test_key(v.node)
                return k2, neg != neg2
        return k, neg

    def truth(self, test, p):
        k, neg = self.tkey(test, p)
        if k in p.facts:
            return p.facts[k] != neg
        inner = test
        while isinstance(inner, ast.UnaryOp) and isinstance(inner.op, ast.Not):
            inner = inner.operand
        r = None
        if isinstance(inner, ast.Name) and inner.id in p.env and inner.id not in p.open:
            v = p.env[inner.id]
            if isinstance(v, (list, str, dict, tuple)):
                r = bool(v)
            elif v is None:
                r = False
        elif isinstance(inner, (ast.Compare, ast.BoolOp)):
            env = {}
            ok = True
            for n in ast.walk(inner):
                if isinstance(n, ast.Name):
                    if n.id in p.env and isinstance(p.env[n.id], (str, int, type(None))):
                        env[n.id] = p.env[n.id]
                    elif self.const_of(n.id) is not None and n.id not in p.env:
                        env[n.id] = self.const_of(n.id)
                    else:
                        ok = False
                elif isinstance(n, (ast.Call, ast.Attribute, ast.Subscript)):
                    ok = False
            if ok:
                v = evaluate(inner, env)
                if not isinstance(v, Unknown):
                    r = bool(v)
        if r is None:
            return None
        return r != neg

    def assume(self, test, value, p):
        k, neg = self.tkey(test, p)
        p.facts[k] = (value != neg)

    def forget(self, name, p):
        for k in [k for k in p.facts if name in _names_of_text(k)]:
            del p.facts[k]

    # -- statements ------------------------------------------------------------
    def run(self, stmts, paths):
        for s in stmts:
            new = []
            for p in paths:
                if p.done:
                    new.append(p)
                else:
                    new.extend(self.stmt(s, p))
            paths = new
            if len(paths) > MAX_PATHS:
                raise AnalysisError(f'path explosion in {self.func.key}')
        return paths

    def assign(self, target, value_node, p):
        """returns list of paths (forks on IfExp / Choice)."""
        if isinstance(target, (ast.Tuple, ast.List)) and isinstance(value_node, (ast.Tuple, ast.List)) \
                and len(target.elts) == len(value_node.elts) and not any(isinstance(x, ast.Starred) for x in target.elts + value_node.elts):
            # a, b = x, y : element-wise (each element may fork on a conditional expression)
            paths = [p]
            for t, v in zip(target.elts, value_node.elts):
                paths = [q2 for q in paths for q2 in self.assign(t, v, q)]
            return paths
        v = self.expr(value_node, p)
        outs = []
        if isinstance(v, IfVal):
            e = v.node
            for branch, val in ((e.body, True), (e.orelse, False)):
                q = p.fork()
                self.assume(e.test, val, q)
                bv = self.expr(branch, q)
                if isinstance(bv, (IfVal, Choice)):
                    bv = Unk('nested-fork')
                outs.append((q, bv))
        elif isinstance(v, Choice):
            for c in v.options:
                outs.append((p.fork(), c))
        elif isinstance(v, _HelperChoice):
            for val, facts in v.options:
                q = p.fork()
                for k, tv in facts.items():
                    q.facts[k] = tv
                outs.append((q, val))
        else:
            outs.append((p, v))
        res = []
        for q, val in outs:
            self.bind(target, val, q)
            res.append(q)
        return res

    def bind(self, target, val, p):
        if isinstance(target, ast.Name):
            self.forget(target.id, p)
            p.env[target.id] = val
            p.open.discard(target.id)
        elif isinstance(target, (ast.Tuple, ast.List)):
            if isinstance(val, (tuple, list)) and len(val) == len(target.elts) \
                    and not any(isinstance(x, Star) for x in val):
                for t, v in zip(target.elts, val):
                    self.bind(t, v, p)
            else:
                for t in target.elts:
                    tt = t.value if isinstance(t, ast.Starred) else t
                    self.bind(tt, Sym(ast.unparse(tt), tt), p)
        elif isinstance(target, ast.Subscript) and isinstance(target.value, ast.Name):
            d = p.env.get(target.value.id)
            if isinstance(d, dict) and isinstance(target.slice, ast.Constant):
                d[target.slice.value] = val

    def stmt(self, s, p):
        if isinstance(s, ast.Assign):
            self.effects(s.value, p)
            paths = [p]
            for t in s.targets:
                paths = [q2 for q in paths for q2 in self.assign(t, s.value, q)]
            return paths
        if isinstance(s, ast.AnnAssign):
            if s.value is None:
                return [p]
            self.effects(s.value, p)
            return self.assign(s.target, s.value, p)
        if isinstance(s, ast.AugAssign):
            self.effects(s.value, p)
            if isinstance(s.target, ast.Name):
                a = p.env.get(s.target.id)
                if a is None:
                    a = self.const_of(s.target.id)
                b = self.expr(s.value, p)
                self.forget(s.target.id, p)
                if isinstance(a, str) and isinstance(b, str):
                    p.env[s.target.id] = a + b
                elif isinstance(a, (str, Unk)) or isinstance(b, Unk):
                    p.env[s.target.id] = Unk(f'aug:{ast.unparse(s.value)[:40]}')
                else:
                    p.env[s.target.id] = Sym(ast.unparse(s.target), s.target)
            return [p]
        if isinstance(s, ast.If):
            self.effects(s.test, p)
            t = self.truth(s.test, p)
            outs = []
            if t is not False:
                a = p.fork()
                self.assume(s.test, True, a)
                outs += self.run(s.body, [a])
            if t is not True:
                b = p.fork()
                self.assume(s.test, False, b)
                outs += self.run(s.orelse, [b])
            return outs
        if isinstance(s, ast.Expr):
            self.effects(s.value, p)
            return [p]
        if isinstance(s, ast.Return):
            if s.value is not None:
                self.effects(s.value, p)
                if self.want_ret:
                    v = self.expr(s.value, p)
                    if isinstance(v, IfVal):
                        outs = []
                        for branch, val in ((v.node.body, True), (v.node.orelse, False)):
                            q = p.fork()
                            self.assume(v.node.test, val, q)
                            q.ret = self.expr(branch, q)
                            q.done = True
                            outs.append(q)
                        return outs
                    p.ret = v
            elif self.want_ret:
                p.ret = None
            p.done = True
            return [p]
        if isinstance(s, ast.Raise):
            p.done = True
            return [p]
        if isinstance(s, (ast.Continue, ast.Break)):
            return [p]
        if isinstance(s, ast.For):
            self.effects(s.iter, p)
            it = self.expr(s.iter, p)
            if isinstance(it, (list, tuple)) and it and all(isinstance(x, tuple) for x in it) \
                    and isinstance(s.target, ast.Tuple) and len(it) <= 8:
                paths = [p]
                for row in it:
                    for q in paths:
                        if not q.done:
                            self.bind(s.target, row, q)
                    paths = self.run(s.body, paths)
                return paths
            self.bind(s.target, Sym(ast.unparse(s.target), s.target), p)
            self.loop_depth += 1
            try:
                outs = self.run(s.body, [p])
            finally:
                self.loop_depth -= 1
            for q in outs:   # the loop may also execute zero times: keep done paths only
                pass
            return outs
        if isinstance(s, ast.While):
            self.effects(s.test, p)
            self.loop_depth += 1
            try:
                return self.run(s.body, [p])
            finally:
                self.loop_depth -= 1
        if isinstance(s, (ast.With, ast.AsyncWith)):
            for it in s.items:
                self.effects(it.context_expr, p)
                if it.optional_vars is not None:
                    self.bind(it.optional_vars, Sym(ast.unparse(it.optional_vars)), p)
            return self.run(s.body, [p])
        if isinstance(s, ast.Try):
            base = p.fork()
            ps = self.run(s.body, [p])
            for h in s.handlers:
                hp = base.fork()
                ps += self.run(h.body, [hp])
            out = []
            for q in ps:
                was = q.done
                q.done = False
                r = self.run(s.finalbody, [q])
                for x in r:
                    x.done = x.done or was
                out += r
            return out
        if isinstance(s, (ast.FunctionDef, ast.AsyncFunctionDef, ast.ClassDef)):
            return [p]
        for node in ast.iter_child_nodes(s):
            if isinstance(node, ast.expr):
                self.effects(node, p)
        return [p]

    def effects(self, e, p):
        """list mutations and statement executions inside an expression (evaluation order approximated by walk)."""
        calls = [n for n in ast.walk(e) if isinstance(n, ast.Call) and isinstance(n.func, ast.Attribute)]
        calls.sort(key=lambda n: (n.end_lineno, n.end_col_offset))
        for node in calls:
            f = node.func
            if f.attr in ('append', 'extend', 'insert') and isinstance(f.value, ast.Name) \
                    and isinstance(p.env.get(f.value.id), list) and node.args:
                v = self.expr(node.args[-1], p)
                if isinstance(v, (IfVal, Choice)):
                    v = Unk('fork-in-append')
                if f.attr == 'insert' and len(node.args) == 2 and isinstance(node.args[0], ast.Constant) \
                        and isinstance(node.args[0].value, int) and 0 <= node.args[0].value <= len(p.env[f.value.id]):
                    p.env[f.value.id].insert(node.args[0].value, v)      # `conditions.insert(0, x)`
                else:
                    p.env[f.value.id].append(v if f.attr != 'extend' else Star(v))
                if self.loop_depth:
                    p.open.add(f.value.id)
                self.forget(f.value.id, p)
            elif f.attr in ('setdefault',) and isinstance(f.value, ast.Name) and isinstance(p.env.get(f.value.id), dict) \
                    and len(node.args) == 2 and isinstance(node.args[0], ast.Constant):
                p.env[f.value.id].setdefault(node.args[0].value, self.expr(node.args[1], p))
            elif f.attr in EXEC_ATTRS and node.args:
                sqlv = self.expr(node.args[0], p)
                if isinstance(sqlv, (IfVal, Choice)):
                    sqlv = Unk('fork-in-exec-arg')
                pnode = node.args[1] if len(node.args) > 1 else None
                params = self.expr(pnode, p) if pnode is not None else None
                p.execs.append(Exec(node, f.attr, sqlv, params, pnode, dict(p.facts)))


def _names_of_text(text):
    try:
        return {n.id for n in ast.walk(ast.parse(text, mode='eval')) if isinstance(n, ast.Name)}
    except SyntaxError:
        return set()


# ---------------------------------------------------------------------------
# parameter sequences

def flatten_params(v, facts):
    """abstract bind argument -> ('pos', [('one', text)|('many', text)...]) | ('named', {names}|None) | ('unknown', why)"""
    if v is None:
        return ('pos', [])
    if isinstance(v, dict):
        return ('named', set(v.keys()))
    if isinstance(v, Sym):
        return ('opaque', v.text)
    if isinstance(v, (list, tuple)):
        out = []
        for x in v:
            if isinstance(x, Star):
                inner = x.value
                if isinstance(inner, Sym):
                    if facts.get(inner.text) is False:
                        continue
                    out.append(('many', inner.text))
                elif isinstance(inner, (list, tuple)):
                    kind, sub = flatten_params(inner, facts)
                    if kind != 'pos':
                        return ('unknown', 'nested')
                    out.extend(sub)
                else:
                    return ('unknown', repr(inner))
            elif isinstance(x, (Unk, IfVal, Choice)):
                return ('unknown', repr(x))
            elif isinstance(x, Sym):
                out.append(('one', x.text))
            else:
                out.append(('one', repr(x)))
        return ('pos', out)
    return ('unknown', repr(v))


class Variant:
    __slots__ = ('sql', 'params', 'facts', 'stmt', 'exec')

    def __init__(self, sql, params, facts, ex):
        self.sql, self.params, self.facts, self.exec = sql, params, facts, ex
        self.stmt = S.Stmt(sql) if isinstance(sql, str) else None


class Site:
    def __init__(self, func, node, attr):
        self.func, self.node, self.attr = func, node, attr
        self.variants: list[Variant] = []
        self.unresolved: list = []

    @property
    def loc(self):
        return self.func.module.loc(self.node)

    @property
    def key(self):
        return f'{self.func.key}:{self.attr}:{norm(self.node.args[0])[:60]}'


def _callsite_strings(repo, func, depth=0):
    """parameter name -> sorted list of constant strings passed by all call sites in wn/ (or None)."""
    from .callgraph import CallGraph
    cg = CallGraph.of(repo)
    out = {}
    params = func.params
    skip = 1 if func.cls is not None and params and params[0] in ('self', 'cls') else 0
    sites = cg.callers_of(func)
    if not sites:
        return out
    for idx, pname in enumerate(params[skip:]):
        vals = set()
        ok = True
        for caller, call in sites:
            arg = None
            if idx < len(call.args) and not any(isinstance(a, ast.Starred) for a in call.args[:idx + 1]):
                arg = call.args[idx]
            for kw in call.keywords:
                if kw.arg == pname:
                    arg = kw.value
            if arg is None:
                d = _default_of(func, pname)
                if d is not None and isinstance(d, ast.Constant) and isinstance(d.value, str):
                    vals.add(d.value)
                    continue
                ok = False
                break
            if isinstance(arg, ast.Name) and arg.id not in caller.params:
                # a local of the caller bound once, just before, to a constant-foldable string (f-string over module constants)
                from .pyutil import nearest_assignment
                from .consts import module_consts
                v_ = nearest_assignment(caller.node, arg.id, call)
                if v_ is not None:
                    try:
                        folded = evaluate(v_, dict(module_consts(caller.module, repo)))
                    except Exception:  # noqa: BLE001
                        folded = None
                    if isinstance(folded, str):
                        arg = ast.Constant(value=folded)
            if isinstance(arg, ast.Constant) and isinstance(arg.value, str):
                vals.add(arg.value)
            elif isinstance(arg, ast.Name) and arg.id in caller.params and depth < 2:
                sub = _callsite_strings(repo, caller, depth + 1).get(arg.id)
                if sub is None:
                    ok = False
                    break
                vals.update(sub)
            elif isinstance(arg, ast.JoinedStr) and depth < 2:
                # f'{table[:-1]}_examples' with table bound from the caller's own call sites
                names = [n.id for n in ast.walk(arg) if isinstance(n, ast.Name)]
                subs = _callsite_strings(repo, caller, depth + 1)
                if len(names) == 1 and subs.get(names[0]):
                    for v in subs[names[0]]:
                        r = evaluate(arg, {names[0]: v})
                        if isinstance(r, str):
                            vals.add(r)
                        else:
                            ok = False
                else:
                    ok = False
                if not ok:
                    break
            else:
                ok = False
                break
        if ok and vals:
            out[pname] = sorted(vals)
    return out


def _default_of(func, pname):
    a = func.node.args
    pos = a.posonlyargs + a.args
    defaults = [None] * (len(pos) - len(a.defaults)) + list(a.defaults)
    for p, d in zip(pos, defaults):
        if p.arg == pname:
            return d
    for p, d in zip(a.kwonlyargs, a.kw_defaults):
        if p.arg == pname:
            return d
    return None


def _string_params_used_in_sql(func):
    """parameters that flow into string building (f-string / format / compare / dict.get key)."""
    used = set()
    params = set(func.params)
    for n in walk_no_nested(func.node):
        if isinstance(n, ast.JoinedStr):
            for v in n.values:
                if isinstance(v, ast.FormattedValue):
                    for x in ast.walk(v.value):
                        if isinstance(x, ast.Name) and x.id in params:
                            used.add(x.id)
        elif isinstance(n, ast.Compare):
            for x in [n.left] + n.comparators:
                if isinstance(x, ast.Name) and x.id in params:
                    if any(isinstance(y, ast.Constant) and isinstance(y.value, str) for y in [n.left] + n.comparators):
                        used.add(x.id)
        elif isinstance(n, ast.Call) and isinstance(n.func, ast.Attribute) and n.func.attr == 'format':
            for k in n.keywords:
                if isinstance(k.value, ast.Name) and k.value.id in params:
                    used.add(k.value.id)
        elif isinstance(n, ast.Call) and isinstance(n.func, ast.Attribute) and n.func.attr in EXEC_ATTRS and n.args \
                and isinstance(n.args[0], ast.Name) and n.args[0].id in params:
            used.add(n.args[0].id)      # the statement text itself is a parameter: bound from the call sites
    return used


def has_exec(func):
    for n in walk_no_nested(func.node):
        if isinstance(n, ast.Call) and isinstance(n.func, ast.Attribute) and n.func.attr in EXEC_ATTRS:
            return True
    return False


def extract_function(repo, func):
    """-> list[Site] for one function."""
    bind_candidates = _string_params_used_in_sql(func)
    bindings = {}
    if bind_candidates:
        cs = _callsite_strings(repo, func)
        for pname in bind_candidates:
            if pname in cs:
                bindings[pname] = cs[pname]
    inits = [Path()]
    for pname, vals in bindings.items():
        inits = [Path({**q.env, pname: v}) for q in inits for v in vals]
    ev = Evaluator(repo, func, bindings)
    paths = ev.run(func.node.body, inits)
    sites: dict[int, Site] = {}
    for p in paths:
        for ex in p.execs:
            st = sites.setdefault(id(ex.node), Site(func, ex.node, ex.attr))
            if not isinstance(ex.sql, str):
                if repr(ex.sql) not in [repr(u) for u in st.unresolved]:
                    st.unresolved.append(ex.sql)
                continue
            params = flatten_params(ex.params, ex.facts)
            sig = (ex.sql, repr(params))
            if sig not in {(v.sql, repr(v.params)) for v in st.variants}:
                st.variants.append(Variant(ex.sql, params, ex.facts, ex))
    # sites never reached by any path (dead code or missed construct)
    for n in walk_no_nested(func.node):
        if isinstance(n, ast.Call) and isinstance(n.func, ast.Attribute) and n.func.attr in EXEC_ATTRS and n.args:
            if id(n) not in sites:
                st = Site(func, n, n.func.attr)
                st.unresolved.append(Unk('unreached'))
                sites[id(n)] = st
    return sorted(sites.values(), key=lambda s: s.node.lineno), bindings


def extract_all(repo):
    def build():
        out = []
        binds = {}
        for func in repo.all_funcs():
            if has_exec(func):
                sites, b = extract_function(repo, func)
                out.extend(sites)
                if b:
                    binds[func.key] = b
        return out, binds
    return repo.cache('sqlx', build)
