"""Name-resolved whole-package call graph (import table, class hierarchy,
function-valued parameters bound from call sites)."""
from __future__ import annotations
import ast
from .src import walk_no_nested

# attribute names too generic for class-hierarchy resolution on an unknown receiver
_GENERIC = {'get', 'items', 'keys', 'values', 'append', 'extend', 'pop', 'add', 'copy', 'join', 'split', 'strip',
            'format', 'setdefault', 'insert', 'remove', 'sort', 'index', 'count', 'startswith', 'endswith', 'lower',
            'upper', 'replace', 'encode', 'decode', 'read', 'write', 'open', 'close', 'execute', 'executemany',
            'fetchone', 'fetchall', 'cursor', 'commit', 'rollback', 'intersection', 'union', 'difference', 'group',
            'groups', 'finditer', 'match', 'search', 'is_file', 'is_dir', 'iterdir', 'expanduser', 'exists',
            'readline', 'rstrip', 'lstrip', 'elements', 'most_common', 'unlink', 'mkdir', 'with_suffix', 'resolve'}


class CallGraph:
    @classmethod
    def of(cls, repo):
        return repo.cache('callgraph', lambda: cls(repo))

    def __init__(self, repo):
        self.repo = repo
        self.methods_by_name = {}
        for f in repo.all_funcs():
            if f.cls is not None:
                self.methods_by_name.setdefault(f.name, []).append(f)
        self.edges = {}      # func.key -> list[(call, [FuncInfo])]
        self.rev = {}        # func.key -> list[(caller, call)]
        self.funcparams = {}  # (func.key, param) -> set(FuncInfo)
        self._build()

    # -- resolution ------------------------------------------------------------
    def resolve_name(self, module, name, scope_func=None):
        """FuncInfo list a bare name refers to."""
        if scope_func is not None:
            q = f'{scope_func.qualname}.<locals>.{name}'
            if q in module.funcs:
                return [module.funcs[q]]
            # enclosing scopes
            parts = scope_func.qualname.split('.<locals>.')
            for i in range(len(parts) - 1, 0, -1):
                q = '.<locals>.'.join(parts[:i]) + f'.<locals>.{name}'
                if q in module.funcs:
                    return [module.funcs[q]]
        if name in module.funcs:
            return [module.funcs[name]]
        if name in module.classes:
            init = self.repo.lookup_method(module.classes[name], '__init__')
            new = self.repo.lookup_method(module.classes[name], '__new__')
            return [x for x in (init, new) if x is not None]
        imp = module.imports.get(name)
        if imp and imp[0] == 'obj' and imp[1] in self.repo.modules:
            m = self.repo.modules[imp[1]]
            if imp[2] in m.funcs or imp[2] in m.classes or imp[2] in m.imports:
                if m is not module:
                    return self.resolve_name(m, imp[2])
        return []

    def resolve_call(self, func, call):
        f = call.func
        module = func.module
        if isinstance(f, ast.Name):
            r = self.resolve_name(module, f.id, func)
            if r:
                return r
            if f.id in func.params:
                return sorted(self.funcparams.get((func.key, f.id), ()), key=lambda x: x.key)
            # a closure calling a function-valued parameter of an enclosing function
            q = func.qualname
            while '.<locals>.' in q:
                q = q.rsplit('.<locals>.', 1)[0]
                outer = module.funcs.get(q)
                if outer is not None and f.id in outer.params:
                    return sorted(self.funcparams.get((outer.key, f.id), ()), key=lambda x: x.key)
            return []
        if isinstance(f, ast.Attribute):
            v = f.value
            if isinstance(v, ast.Name):
                imp = module.imports.get(v.id)
                if imp and imp[0] == 'mod' and imp[1] in self.repo.modules:
                    r = self.resolve_name(self.repo.modules[imp[1]], f.attr)
                    if r:
                        return r
                if v.id in ('self', 'cls') and func.cls is not None:
                    out = []
                    m = self.repo.lookup_method(func.cls, f.attr)
                    if m is not None:
                        out.append(m)
                    for sub in self.repo.subclasses(func.cls):
                        if f.attr in sub.methods and sub.methods[f.attr] not in out:
                            out.append(sub.methods[f.attr])
                    if out:
                        return out
                c = self.repo.resolve_class(module, v.id)
                if c is not None:
                    m = self.repo.lookup_method(c, f.attr)
                    if m is not None:
                        return [m]
            if isinstance(v, ast.Call) and isinstance(v.func, ast.Name) and v.func.id == 'super' and func.cls is not None:
                for c in self.repo.mro(func.cls)[1:]:
                    if f.attr in c.methods:
                        return [c.methods[f.attr]]
            if isinstance(v, ast.Attribute) and isinstance(v.value, ast.Name):
                # wn.lmf.load / _core.Synset.empty
                imp = module.imports.get(v.value.id)
                if imp and imp[0] == 'mod':
                    sub = f'{imp[1]}.{v.attr}'
                    if sub in self.repo.modules:
                        r = self.resolve_name(self.repo.modules[sub], f.attr)
                        if r:
                            return r
                    if imp[1] in self.repo.modules:
                        c = self.repo.resolve_class(self.repo.modules[imp[1]], v.attr)
                        if c is not None:
                            m = self.repo.lookup_method(c, f.attr)
                            if m is not None:
                                return [m]
            if f.attr in _GENERIC:
                return []
            return list(self.methods_by_name.get(f.attr, []))
        return []

    def _build(self):
        # two rounds: the second binds function-valued parameters
        for rnd in range(3):
            self.edges = {}
            self.rev = {}
            changed = False
            for func in self.repo.all_funcs():
                lst = []
                for n in walk_no_nested(func.node):
                    if isinstance(n, ast.Call):
                        cal = self.resolve_call(func, n)
                        lst.append((n, cal))
                        for c in cal:
                            self.rev.setdefault(c.key, []).append((func, n))
                            # function-valued arguments
                            params = c.params
                            skip = 1 if c.cls is not None and params and params[0] in ('self', 'cls') else 0
                            for i, a in enumerate(n.args):
                                if isinstance(a, ast.Name) and i + skip < len(params):
                                    tg = self.resolve_name(func.module, a.id, func)
                                    tg = [t for t in tg if t.name not in ('__init__', '__new__')]
                                    if not tg and a.id in func.params:
                                        tg = list(self.funcparams.get((func.key, a.id), ()))
                                    if tg:
                                        s = self.funcparams.setdefault((c.key, params[i + skip]), set())
                                        for t in tg:
                                            if t not in s:
                                                s.add(t)
                                                changed = True
                            for kw in n.keywords:
                                if kw.arg and isinstance(kw.value, ast.Name):
                                    tg = self.resolve_name(func.module, kw.value.id, func)
                                    tg = [t for t in tg if t.name not in ('__init__', '__new__')]
                                    if tg:
                                        s = self.funcparams.setdefault((c.key, kw.arg), set())
                                        for t in tg:
                                            if t not in s:
                                                s.add(t)
                                                changed = True
                self.edges[func.key] = lst
            if not changed:
                break

    # -- queries -----------------------------------------------------------------
    def callees(self, func):
        return self.edges.get(func.key, [])

    def callers_of(self, func):
        return self.rev.get(func.key, [])

    def reachable(self, roots, stop=()):
        seen = {}
        stack = list(roots)
        stopkeys = {s.key for s in stop}
        while stack:
            f = stack.pop()
            if f.key in seen or f.key in stopkeys:
                continue
            seen[f.key] = f
            for _, cal in self.callees(f):
                stack.extend(cal)
        return seen

    def calls_in(self, func, node):
        """resolved calls lexically inside `node` (a statement or block) of func."""
        inside = set()
        nodes = node if isinstance(node, list) else [node]
        for nd in nodes:
            for n in ast.walk(nd):
                inside.add(id(n))
        return [(c, cal) for c, cal in self.callees(func) if id(c) in inside]
