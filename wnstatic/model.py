"""The WN-LMF model (TypedDict classes of wn/lmf.py) and an annotation-driven
type inference for local variables (enough to know, for `x['k']`, which model
class(es) `x` can be and whether `k` is required)."""
from __future__ import annotations
import ast
from .src import AnalysisError, norm, walk_no_nested

ANY = None


class M:
    def __init__(s, name, known=None):
        s.name = name
        s.known = known

    def __repr__(s):
        return f'M({s.name})'


class L:
    def __init__(s, e):
        s.e = e

    def __repr__(s):
        return f'L[{s.e}]'


class Tup:
    def __init__(s, es):
        s.es = es

    def __repr__(s):
        return f'Tup{s.es}'


class U:
    def __init__(s, ms):
        s.ms = ms

    def __repr__(s):
        return f'U{s.ms}'


class D:
    def __init__(s, k, v):
        s.k, s.v = k, v

    def __repr__(s):
        return f'D[{s.k},{s.v}]'


class Lit:
    """dict display with known constant keys."""

    def __init__(s, keys, vals):
        s.keys, s.vals = keys, vals

    def __repr__(s):
        return f'Lit{sorted(s.keys)}'


class TV:
    def __init__(s, name):
        s.name = name

    def __repr__(s):
        return f'~{s.name}'


class Prim:
    def __init__(s, name):
        s.name = name

    def __repr__(s):
        return s.name


def union(a, b):
    if a is ANY or b is ANY:
        return ANY
    if repr(a) == repr(b):
        return a
    ms = []
    for x in (a, b):
        ms.extend(x.ms if isinstance(x, U) else [x])
    uniq = {}
    for m in ms:
        uniq[repr(m)] = m
    return U(list(uniq.values()))


class Model:
    def __init__(self, repo):
        self.repo = repo
        self.lmf = repo.mod('lmf')
        self.classes: dict[str, dict] = {}     # name -> {key: (annotation ast, required)}
        self.bases: dict[str, list] = {}
        self._load(self.lmf.tree)
        if len(self.classes) < 20:
            raise AnalysisError(f'only {len(self.classes)} TypedDict classes found in wn/lmf.py')

    def _load(self, tree):
        raw = {}
        for n in tree.body:
            if isinstance(n, ast.Assign) and isinstance(n.value, ast.Call) and getattr(n.value.func, 'id', '') == 'TypedDict' \
                    and len(n.value.args) >= 2 and isinstance(n.value.args[1], ast.Dict):
                name = n.targets[0].id
                total = True
                for k in n.value.keywords:
                    if k.arg == 'total' and isinstance(k.value, ast.Constant):
                        total = k.value.value
                d = n.value.args[1]
                raw[name] = ([], {k.value: (v, total) for k, v in zip(d.keys, d.values)}, True)
            if isinstance(n, ast.ClassDef):
                bases = [norm(b) for b in n.bases]
                if not bases:
                    continue
                total = True
                for k in n.keywords:
                    if k.arg == 'total' and isinstance(k.value, ast.Constant):
                        total = k.value.value
                keys = {}
                for s in n.body:
                    if isinstance(s, ast.AnnAssign) and isinstance(s.target, ast.Name):
                        keys[s.target.id] = (s.annotation, total)
                raw[n.name] = (bases, keys, 'TypedDict' in bases)

        def is_td(name, seen=()):
            if name not in raw or name in seen:
                return False
            bases, keys, direct = raw[name]
            return direct or any(is_td(b, seen + (name,)) for b in bases)

        def resolve(name):
            bases, keys, _ = raw[name]
            out = {}
            for b in bases:
                if b in raw:
                    out.update(resolve(b))
            out.update(keys)
            return out
        for name in raw:
            if is_td(name):
                self.classes[name] = resolve(name)
                self.bases[name] = [b for b in raw[name][0] if b in raw]

    def required(self, cls, key):
        c = self.classes[cls]
        return key in c and bool(c[key][1])

    def keys(self, cls):
        return self.classes[cls]

    def key_ann(self, cls, key):
        return self.classes[cls][key][0]

    # -- annotations -> type terms ---------------------------------------------
    def ann(self, a, mod, depth=0):
        if a is None or depth > 10:
            return ANY
        repo = self.repo
        if isinstance(a, ast.Constant) and isinstance(a.value, str):
            try:
                return self.ann(ast.parse(a.value, mode='eval').body, mod, depth + 1)
            except SyntaxError:
                return ANY
        if isinstance(a, ast.Constant) and a.value is None:
            return Prim('None')
        if isinstance(a, ast.Name):
            if mod is self.lmf and a.id in self.classes:
                return M(a.id)
            if a.id in ('str', 'int', 'bool', 'float', 'bytes'):
                return Prim(a.id)
            imp = mod.imports.get(a.id)
            if imp and imp[0] == 'obj' and imp[1] in repo.modules:
                m2 = repo.modules[imp[1]]
                if m2 is self.lmf and imp[2] in self.classes:
                    return M(imp[2])
                al = _alias(m2, imp[2])
                if al is not None:
                    return self.ann(al, m2, depth + 1)
            al = _alias(mod, a.id)
            if al is not None:
                if isinstance(al, ast.Call) and norm(al.func) == 'TypeVar':
                    return TV(a.id)
                return self.ann(al, mod, depth + 1)
            return ANY
        if isinstance(a, ast.Attribute) and isinstance(a.value, ast.Name):
            imp = mod.imports.get(a.value.id)
            if imp and imp[0] == 'mod' and imp[1] in repo.modules:
                m2 = repo.modules[imp[1]]
                if m2 is self.lmf and a.attr in self.classes:
                    return M(a.attr)
                al = _alias(m2, a.attr)
                if al is not None:
                    return self.ann(al, m2, depth + 1)
            return ANY
        if isinstance(a, ast.Subscript):
            head = norm(a.value).split('.')[-1]
            args = a.slice.elts if isinstance(a.slice, ast.Tuple) else [a.slice]
            if head in ('list', 'List', 'Sequence', 'Iterator', 'Iterable', 'Collection', 'set', 'frozenset', 'Generator'):
                return L(self.ann(args[0], mod, depth + 1))
            if head in ('tuple', 'Tuple'):
                if len(args) == 2 and isinstance(args[1], ast.Constant) and args[1].value is Ellipsis:
                    return L(self.ann(args[0], mod, depth + 1))
                return Tup([self.ann(x, mod, depth + 1) for x in args])
            if head == 'Union':
                ts = [self.ann(x, mod, depth + 1) for x in args]
                if any(t is ANY for t in ts):
                    return ANY
                out = ts[0]
                for t in ts[1:]:
                    out = union(out, t)
                return out
            if head == 'Optional':
                return self.ann(args[0], mod, depth + 1)
            if head in ('dict', 'Dict', 'Mapping'):
                return D(self.ann(args[0], mod, depth + 1), self.ann(args[1], mod, depth + 1))
            return ANY
        return ANY

    # -- key queries -------------------------------------------------------------
    def keyinfo(self, t, key):
        """'req' | 'opt' | 'absent' | 'unknown'"""
        if isinstance(t, M):
            c = self.classes[t.name]
            if t.known and key in t.known:
                return 'req'
            if key not in c:
                return 'absent'
            return 'req' if c[key][1] else 'opt'
        if isinstance(t, Lit):
            return 'req' if key in t.keys else 'absent'
        if isinstance(t, U):
            rs = [self.keyinfo(m, key) for m in t.ms]
            if all(r == 'req' for r in rs):
                return 'req'
            if any(r == 'unknown' for r in rs):
                return 'unknown'
            if all(r == 'absent' for r in rs):
                return 'absent'
            return 'opt'
        return 'unknown'

    def keytype(self, t, key):
        if isinstance(t, M):
            c = self.classes[t.name]
            return self.ann(c[key][0], self.lmf) if key in c else ANY
        if isinstance(t, Lit):
            return t.vals.get(key, ANY)
        if isinstance(t, U):
            out = None
            first = True
            for m in t.ms:
                if self.keyinfo(m, key) == 'absent':
                    continue
                kt = self.keytype(m, key)
                if kt is ANY:
                    return ANY
                out = kt if first else union(out, kt)
                first = False
            return out
        return ANY

    def classes_of(self, t):
        if isinstance(t, M):
            return [t.name]
        if isinstance(t, U):
            out = []
            for m in t.ms:
                out.extend(self.classes_of(m))
            return out
        return []


def _alias(mod, name):
    for n in mod.tree.body:
        if isinstance(n, ast.Assign) and len(n.targets) == 1 and isinstance(n.targets[0], ast.Name) \
                and n.targets[0].id == name:
            return n.value
    return None


def elem(t):
    if isinstance(t, L):
        return t.e
    if isinstance(t, D):
        return t.k
    if isinstance(t, U):
        es = [elem(m) for m in t.ms]
        if any(e is ANY for e in es):
            return ANY
        out = es[0]
        for e in es[1:]:
            out = union(out, e)
        return out
    return ANY


def _subst(t, binding):
    if isinstance(t, TV):
        return binding.get(t.name, ANY)
    if isinstance(t, L):
        return L(_subst(t.e, binding))
    if isinstance(t, Tup):
        return Tup([_subst(x, binding) for x in t.es])
    if isinstance(t, D):
        return D(_subst(t.k, binding), _subst(t.v, binding))
    return t


def _unify(pt, at, binding):
    if isinstance(pt, TV):
        if at is not ANY:
            binding[pt.name] = at
    elif isinstance(pt, L) and isinstance(at, L):
        _unify(pt.e, at.e, binding)
    elif isinstance(pt, L) and isinstance(at, U):
        e = elem(at)
        if e is not ANY:
            _unify(pt.e, e, binding)


class Typer:
    """types of expressions inside one function; facts about present keys are handled by the caller."""

    def __init__(self, model, ctx, func):
        self.model = model
        self.ctx = ctx
        self.func = func
        self.mod = func.module

    def param_env(self):
        env = {}
        for p in self.func.param_nodes():
            env[p.arg] = self.model.ann(p.annotation, self.mod)
        return env

    def func_ret(self, call, env):
        cal = self.ctx.cg.resolve_call(self.func, call)
        if len(cal) != 1:
            return ANY
        c = cal[0]
        rt = self.model.ann(c.node.returns, c.module)
        if rt is ANY:
            return ANY
        binding = {}
        params = c.param_nodes()
        skip = 1 if c.cls is not None and params and params[0].arg in ('self', 'cls') else 0
        for p, a in zip(params[skip:], call.args):
            pt = self.model.ann(p.annotation, c.module)
            if pt is not ANY:
                _unify(pt, self.typeof(a, env), binding)
        return _subst(rt, binding)

    def typeof(self, e, env):
        mdl = self.model
        if isinstance(e, ast.Name):
            return env.get(e.id, ANY)
        if isinstance(e, ast.Subscript):
            base = self.typeof(e.value, env)
            if isinstance(e.slice, ast.Constant) and isinstance(e.slice.value, str):
                return mdl.keytype(base, e.slice.value)
            if isinstance(base, D):
                return base.v
            if isinstance(base, L):
                return base.e if not isinstance(e.slice, ast.Slice) else base
            if isinstance(base, Tup) and isinstance(e.slice, ast.Constant) and isinstance(e.slice.value, int) \
                    and -len(base.es) <= e.slice.value < len(base.es):
                return base.es[e.slice.value]
            return ANY
        if isinstance(e, ast.Call):
            f = e.func
            if isinstance(f, ast.Name) and f.id == 'cast' and len(e.args) == 2:
                return mdl.ann(e.args[0], self.mod)
            if isinstance(f, ast.Attribute):
                base = self.typeof(f.value, env)
                if f.attr == 'get' and e.args and isinstance(e.args[0], ast.Constant) and isinstance(e.args[0].value, str):
                    return mdl.keytype(base, e.args[0].value)
                if f.attr == 'get' and isinstance(base, D):
                    return base.v
                if f.attr == 'values' and isinstance(base, D):
                    return L(base.v)
                if f.attr == 'keys' and isinstance(base, D):
                    return L(base.k)
                if f.attr == 'items' and isinstance(base, D):
                    return L(Tup([base.k, base.v]))
                if f.attr == 'setdefault' and isinstance(base, D):
                    return base.v
                if f.attr == 'elements' and isinstance(base, D):
                    return L(base.k)
            if isinstance(f, ast.Name) and f.id in ('list', 'sorted', 'reversed', 'iter', 'tuple', 'set') and e.args:
                t = self.typeof(e.args[0], env)
                if isinstance(t, L):
                    return t
                et = elem(t)
                return L(et) if et is not ANY else ANY
            if isinstance(f, ast.Name) and f.id == 'enumerate' and e.args:
                return L(Tup([Prim('int'), elem(self.typeof(e.args[0], env))]))
            if isinstance(f, ast.Name) and f.id == 'chain':
                ts = [elem(self.typeof(a, env)) for a in e.args]
                if ts and all(t is not ANY for t in ts):
                    out = ts[0]
                    for t in ts[1:]:
                        out = union(out, t)
                    return L(out)
                return ANY
            if isinstance(f, ast.Name) and f.id == 'dict' and e.args:
                return ANY
            if isinstance(f, ast.Name) and f.id == 'next' and e.args:
                return elem(self.typeof(e.args[0], env))
            return self.func_ret(e, env)
        if isinstance(e, ast.Dict):
            if e.keys and all(isinstance(k, ast.Constant) for k in e.keys):
                return Lit({k.value for k in e.keys}, {k.value: self.typeof(v, env) for k, v in zip(e.keys, e.values)})
            return ANY
        if isinstance(e, (ast.ListComp, ast.GeneratorExp, ast.SetComp)):
            env2 = dict(env)
            for g in e.generators:
                self.bind(g.target, elem(self.typeof(g.iter, env2)), env2)
            return L(self.typeof(e.elt, env2))
        if isinstance(e, ast.DictComp):
            env2 = dict(env)
            for g in e.generators:
                self.bind(g.target, elem(self.typeof(g.iter, env2)), env2)
            return D(self.typeof(e.key, env2), self.typeof(e.value, env2))
        if isinstance(e, ast.List):
            ts = [self.typeof(x, env) for x in e.elts]
            if ts and all(t is not ANY for t in ts):
                out = ts[0]
                for t in ts[1:]:
                    out = union(out, t)
                return L(out)
            return ANY
        if isinstance(e, ast.Tuple):
            return Tup([self.typeof(x, env) for x in e.elts])
        if isinstance(e, ast.BinOp) and isinstance(e.op, ast.Add):
            a, b = self.typeof(e.left, env), self.typeof(e.right, env)
            if isinstance(a, L) and isinstance(b, L) and a.e is not ANY and b.e is not ANY:
                return L(union(a.e, b.e))
            return ANY
        if isinstance(e, ast.BoolOp):
            ts = [self.typeof(v, env) for v in e.values]
            ts = [t for t in ts if t is not ANY]
            if not ts:
                return ANY
            out = ts[0]
            for t in ts[1:]:
                out = union(out, t)
            return out
        if isinstance(e, ast.IfExp):
            a, b = self.typeof(e.body, env), self.typeof(e.orelse, env)
            if a is ANY or b is ANY:
                return ANY
            return union(a, b)
        if isinstance(e, ast.Constant):
            if isinstance(e.value, str):
                return Prim('str')
            if e.value is None:
                return Prim('None')
            return Prim(type(e.value).__name__)
        return ANY

    def bind(self, tgt, t, env):
        if isinstance(tgt, ast.Name):
            env[tgt.id] = t
        elif isinstance(tgt, (ast.Tuple, ast.List)):
            if isinstance(t, Tup) and len(t.es) == len(tgt.elts):
                for x, tt in zip(tgt.elts, t.es):
                    self.bind(x, tt, env)
            else:
                for x in tgt.elts:
                    self.bind(x.value if isinstance(x, ast.Starred) else x, ANY, env)


# ---------------------------------------------------------------------------
# presence facts (guards)

def facts_of(test, positive=True):
    """set of (receiver text, key) known present when `test` is truthy (positive) / falsy."""
    out = set()
    if isinstance(test, ast.BoolOp) and isinstance(test.op, ast.And) and positive:
        for v in test.values:
            out |= facts_of(v, True)
    elif isinstance(test, ast.BoolOp) and isinstance(test.op, ast.Or) and not positive:
        for v in test.values:
            out |= facts_of(v, False)
    elif isinstance(test, ast.UnaryOp) and isinstance(test.op, ast.Not):
        out |= facts_of(test.operand, not positive)
    elif positive and isinstance(test, ast.Call) and isinstance(test.func, ast.Attribute) and test.func.attr == 'get' \
            and test.args and isinstance(test.args[0], ast.Constant) and len(test.args) == 1:
        out.add((norm(test.func.value), test.args[0].value))
    elif isinstance(test, ast.Compare) and len(test.ops) == 1 and isinstance(test.left, ast.Constant):
        if (isinstance(test.ops[0], ast.In) and positive) or (isinstance(test.ops[0], ast.NotIn) and not positive):
            out.add((norm(test.comparators[0]), test.left.value))
    elif positive and isinstance(test, ast.Compare):
        for side in [test.left] + test.comparators:
            if isinstance(side, ast.Call):
                # x.get('k') == 'v' implies present only when compared with a non-None constant
                others = [c for c in [test.left] + test.comparators if c is not side]
                if all(isinstance(c, ast.Constant) and c.value is not None for c in others) \
                        and all(isinstance(op, (ast.Eq, ast.Is)) for op in test.ops):
                    out |= facts_of(side, True)
    return out


class SubscriptChecker:
    """walk a function; report constant-key subscripts on model-typed values whose key is not required and not
    guarded.  `on_sub(node, type, status, guarded)` is called for every resolved subscript."""

    def __init__(self, model, ctx, func, on_sub):
        self.model = model
        self.typer = Typer(model, ctx, func)
        self.func = func
        self.on_sub = on_sub

    def run(self):
        env = self.typer.param_env()
        self.block(self.func.node.body, env, set())

    def check_expr(self, e, env, facts):
        ty = self.typer
        if isinstance(e, ast.BoolOp):
            f = set(facts)
            for v in e.values:
                self.check_expr(v, env, f)
                f |= facts_of(v, isinstance(e.op, ast.And))
            return
        if isinstance(e, ast.IfExp):
            self.check_expr(e.test, env, facts)
            self.check_expr(e.body, env, facts | facts_of(e.test, True))
            self.check_expr(e.orelse, env, facts | facts_of(e.test, False))
            return
        if isinstance(e, (ast.ListComp, ast.GeneratorExp, ast.SetComp, ast.DictComp)):
            env2 = dict(env)
            f = set(facts)
            for g in e.generators:
                self.check_expr(g.iter, env2, f)
                ty.bind(g.target, elem(ty.typeof(g.iter, env2)), env2)
                for c in g.ifs:
                    self.check_expr(c, env2, f)
                    f |= facts_of(c, True)
            if isinstance(e, ast.DictComp):
                self.check_expr(e.key, env2, f)
                self.check_expr(e.value, env2, f)
            else:
                self.check_expr(e.elt, env2, f)
            return
        if isinstance(e, ast.Lambda):
            return
        if isinstance(e, ast.Subscript) and isinstance(e.ctx, ast.Load) and isinstance(e.slice, ast.Constant) \
                and isinstance(e.slice.value, str):
            t = ty.typeof(e.value, env)
            if isinstance(t, (M, U, Lit)):
                st = self.model.keyinfo(t, e.slice.value)
                guarded = (norm(e.value), e.slice.value) in facts
                self.on_sub(e, t, st, guarded)
        for c in ast.iter_child_nodes(e):
            if isinstance(c, ast.expr):
                self.check_expr(c, env, facts)

    def _filled_type(self, name, t):
        """`name: dict[str, C] = {}` (or `list[C] = []`) that is only ever filled with dict displays: the keys present in every
        one of those displays are known to be present in its elements (what a comprehension over the same display gives)."""
        et = t.v if isinstance(t, D) else (t.e if isinstance(t, L) else None)
        if not isinstance(et, M):
            return t
        common = None
        for n in ast.walk(self.func.node):
            vals = []
            if isinstance(n, ast.Assign):
                for tg in n.targets:
                    if isinstance(tg, ast.Subscript) and isinstance(tg.value, ast.Name) and tg.value.id == name:
                        vals.append(n.value)
                    elif isinstance(tg, ast.Name) and tg.id == name:
                        return t
            elif isinstance(n, ast.Call) and isinstance(n.func, ast.Attribute) and isinstance(n.func.value, ast.Name) \
                    and n.func.value.id == name:
                if n.func.attr in ('append', 'add') and len(n.args) == 1:
                    vals.append(n.args[0])
                elif n.func.attr == 'setdefault' and len(n.args) == 2:
                    vals.append(n.args[1])
                elif n.func.attr in ('update', 'extend', 'insert', '__setitem__'):
                    return t
            elif isinstance(n, ast.Call) and any(isinstance(a, ast.Name) and a.id == name for a in n.args) \
                    and not (isinstance(n.func, ast.Name) and n.func.id in ('list', 'len', 'sorted', 'tuple', 'iter', 'enumerate')):
                return t    # handed to a callee that may fill it
            for v in vals:
                if not (isinstance(v, ast.Dict) and v.keys and all(isinstance(k, ast.Constant) for k in v.keys)):
                    return t
                ks = {k.value for k in v.keys}
                common = ks if common is None else common & ks
        if not common:
            return t
        et2 = M(et.name, known=set(common) | set(et.known or ()))
        return D(t.k, et2) if isinstance(t, D) else L(et2)

    def block(self, stmts, env, facts):
        ty = self.typer
        mdl = self.model
        facts = set(facts)
        for s in stmts:
            if isinstance(s, ast.Assign):
                self.check_expr(s.value, env, facts)
                t = ty.typeof(s.value, env)
                for tg in s.targets:
                    if isinstance(tg, (ast.Name, ast.Tuple, ast.List)):
                        ty.bind(tg, t, env)
                    else:
                        self.check_expr(tg, env, facts)
                for tg in s.targets:
                    if isinstance(tg, ast.Name):
                        facts = {f for f in facts if not (f[0] == tg.id or f[0].startswith(tg.id + '[')
                                                           or f[0].startswith(tg.id + '.'))}
                    if isinstance(tg, ast.Subscript) and isinstance(tg.slice, ast.Constant) and isinstance(tg.slice.value, str):
                        facts.add((norm(tg.value), tg.slice.value))
            elif isinstance(s, ast.AnnAssign):
                if s.value is not None:
                    self.check_expr(s.value, env, facts)
                t = mdl.ann(s.annotation, self.func.module)
                if s.value is not None:
                    vt = ty.typeof(s.value, env)
                    if t is ANY:
                        t = vt
                    elif isinstance(vt, Lit) or (isinstance(vt, D) and isinstance(vt.v, Lit)):
                        t = vt
                    elif isinstance(s.target, ast.Name) and isinstance(s.value, (ast.Dict, ast.List)) \
                            and not (s.value.keys if isinstance(s.value, ast.Dict) else s.value.elts):
                        t = self._filled_type(s.target.id, t)
                if isinstance(s.target, ast.Name):
                    env[s.target.id] = t
            elif isinstance(s, ast.AugAssign):
                self.check_expr(s.value, env, facts)
            elif isinstance(s, ast.Expr):
                self.check_expr(s.value, env, facts)
                v = s.value
                if isinstance(v, ast.Call) and isinstance(v.func, ast.Attribute) and v.func.attr == 'setdefault' \
                        and v.args and isinstance(v.args[0], ast.Constant):
                    facts.add((norm(v.func.value), v.args[0].value))
            elif isinstance(s, ast.Return):
                if s.value is not None:
                    self.check_expr(s.value, env, facts)
            elif isinstance(s, ast.Assert):
                self.check_expr(s.test, env, facts)
                facts |= facts_of(s.test, True)
            elif isinstance(s, ast.If):
                self.check_expr(s.test, env, facts)
                e1, e2 = dict(env), dict(env)
                self.block(s.body, e1, facts | facts_of(s.test, True))
                self.block(s.orelse, e2, facts | facts_of(s.test, False))
                leaves = (ast.Continue, ast.Return, ast.Raise, ast.Break)
                if s.body and isinstance(s.body[-1], leaves):
                    facts |= facts_of(s.test, False)
                    env.update(e2)
                elif s.orelse and isinstance(s.orelse[-1], leaves):
                    facts |= facts_of(s.test, True)
                    env.update(e1)
                else:
                    for k in set(e1) | set(e2):
                        a, b = e1.get(k, ANY), e2.get(k, ANY)
                        env[k] = a if repr(a) == repr(b) else (union(a, b) if a is not ANY and b is not ANY else ANY)
            elif isinstance(s, (ast.For, ast.AsyncFor)):
                self.check_expr(s.iter, env, facts)
                ty.bind(s.target, elem(ty.typeof(s.iter, env)), env)
                names = {n.id for n in ast.walk(s.target) if isinstance(n, ast.Name)}
                f2 = {f for f in facts if not any(f[0] == n or f[0].startswith(n + '[') or f[0].startswith(n + '.') for n in names)}
                self.block(s.body, env, f2)
                self.block(s.orelse, env, f2)
            elif isinstance(s, ast.While):
                self.check_expr(s.test, env, facts)
                self.block(s.body, env, facts)
            elif isinstance(s, (ast.With, ast.AsyncWith)):
                for it in s.items:
                    self.check_expr(it.context_expr, env, facts)
                self.block(s.body, env, facts)
            elif isinstance(s, ast.Try):
                self.block(s.body, env, facts)
                for h in s.handlers:
                    self.block(h.body, dict(env), facts)
                self.block(s.finalbody, env, facts)
            elif isinstance(s, (ast.FunctionDef, ast.AsyncFunctionDef, ast.ClassDef)):
                pass
            else:
                for c in ast.iter_child_nodes(s):
                    if isinstance(c, ast.expr):
                        self.check_expr(c, env, facts)
