"""Writers, connection context blocks and their dynamic extents."""
from __future__ import annotations
import ast
from .src import norm, walk_no_nested, AnalysisError
from .pyutil import binding_sites, parents


def write_sites(ctx):
    """exec sites that can send DML / DDL / transaction control (any variant), plus unresolved ones."""
    out = []
    for s in ctx.sites:
        if s.attr == 'executescript':
            out.append(s)
            continue
        if any(v.stmt is not None and v.stmt.is_write for v in s.variants) or (s.unresolved and not s.variants):
            out.append(s)
    return out


def _is_connect_call(func, e):
    return isinstance(e, ast.Call) and isinstance(e.func, ast.Name) and e.func.id == 'connect'


def is_connection_expr(func, e):
    """does the expression denote a sqlite3 connection (connect() or a name/param bound to one)?"""
    if _is_connect_call(func, e):
        return True
    if isinstance(e, ast.Call) and isinstance(e.func, ast.Attribute) and e.func.attr == 'connect':
        return True   # sqlite3.connect(...)
    if isinstance(e, ast.Name):
        for s in binding_sites(func.node, e.id):
            if s[0] == 'assign' and is_connection_expr(func, s[1]) and not isinstance(s[1], ast.Name):
                return True
            if s[0] == 'with' and is_connection_expr(func, s[1]) and not isinstance(s[1], ast.Name):
                return True
            if s[0] == 'param':
                ann = s[1].annotation
                if ann is not None and 'Connection' in norm(ann):
                    return True
                if e.id in ('conn', 'connection'):
                    return True
    return False


def connection_withs(func):
    """With statements of `func` whose context manager is a connection (commit on success / rollback on error)."""
    out = []
    for n in walk_no_nested(func.node):
        if isinstance(n, (ast.With, ast.AsyncWith)):
            for it in n.items:
                if is_connection_expr(func, it.context_expr):
                    out.append(n)
                    break
    return out


def lexically_inside(node, block):
    for p in parents(node):
        if p is block:
            # the context expression itself is evaluated outside the block
            for it in block.items:
                for x in ast.walk(it.context_expr):
                    if x is node:
                        return False
            return True
    return False


def extent(ctx, func, block, stop_names=('connect',)):
    """functions reachable from calls lexically inside the body of `block` (call-graph closure),
    not descending into `stop_names`."""
    roots = []
    for call, cal in ctx.cg.callees(func):
        if lexically_inside(call, block):
            roots.extend(c for c in cal if c.name not in stop_names)
    seen = {}
    stack = list(roots)
    while stack:
        f = stack.pop()
        if f.key in seen or f.name in stop_names and f.module.short == '_db':
            continue
        seen[f.key] = f
        for _, cal in ctx.cg.callees(f):
            stack.extend(c for c in cal if not (c.name in stop_names and c.module.short == '_db'))
    return seen


def covered_functions(ctx, entries, stop_names=('connect',)):
    """greatest set C of functions reachable from `entries` such that every call site of a member (from the
    reachable part) is lexically inside a connection `with` block or lies in a member of C."""
    cg = ctx.cg
    reach = {}
    stack = list(entries)
    while stack:
        f = stack.pop()
        if f.key in reach:
            continue
        if f.name in stop_names and f.module.short == '_db':
            continue
        reach[f.key] = f
        for _, cal in cg.callees(f):
            stack.extend(cal)
    entry_keys = {e.key for e in entries}
    covered = {k for k in reach if k not in entry_keys}
    withs = {k: connection_withs(f) for k, f in reach.items()}
    changed = True
    while changed:
        changed = False
        for k in sorted(covered):
            f = reach[k]
            for caller, call in cg.callers_of(f):
                if caller.key not in reach:
                    continue
                inside = any(lexically_inside(call, w) for w in withs[caller.key])
                if not inside and caller.key not in covered:
                    covered.discard(k)
                    changed = True
                    break
    return reach, covered, withs
