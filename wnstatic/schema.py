"""Schema model read from wn/schema.sql.

The DDL is compiled into an empty in-memory SQLite database (no row exists,
no code of wn runs) and introspected with PRAGMA table_info /
foreign_key_list / index_list."""
from __future__ import annotations
import sqlite3
from .src import AnalysisError


class Column:
    __slots__ = ('name', 'type', 'notnull', 'default', 'pk')

    def __init__(self, name, typ, notnull, default, pk):
        self.name, self.type, self.notnull, self.default, self.pk = name, typ, bool(notnull), default, bool(pk)


class ForeignKey:
    __slots__ = ('table', 'column', 'ref_table', 'ref_column', 'on_delete')

    def __init__(self, table, column, ref_table, ref_column, on_delete):
        self.table, self.column, self.ref_table, self.ref_column, self.on_delete = table, column, ref_table, ref_column, on_delete

    def __repr__(self):
        return f'{self.table}.{self.column}->{self.ref_table}.{self.ref_column} [{self.on_delete}]'


class Schema:
    def __init__(self, repo):
        if not repo.exists('wn/schema.sql'):
            raise AnalysisError('anchor vanished: wn/schema.sql')
        self.text = repo.read('wn/schema.sql')
        self.conn = sqlite3.connect(':memory:')
        try:
            self.conn.executescript(self.text)
        except sqlite3.Error as exc:
            raise AnalysisError(f'schema.sql does not compile: {exc}')
        self.tables: dict[str, list[Column]] = {}
        self.fks: list[ForeignKey] = []
        self.uniques: dict[str, list[tuple]] = {}
        for (t,) in self.conn.execute("select name from sqlite_master where type='table' order by rowid"):
            self.tables[t] = [Column(r[1], (r[2] or '').upper(), r[3], r[4], r[5])
                              for r in self.conn.execute(f'pragma table_info("{t}")')]
            for r in self.conn.execute(f'pragma foreign_key_list("{t}")'):
                self.fks.append(ForeignKey(t, r[3], r[2], r[4] or 'rowid', r[6].upper()))
            us = []
            for ix in self.conn.execute(f'pragma index_list("{t}")'):
                if ix[2]:  # unique
                    cols = tuple(c[2] for c in self.conn.execute(f'pragma index_info("{ix[1]}")'))
                    us.append(cols)
            self.uniques[t] = us

    def cols(self, table):
        return [c.name for c in self.tables[table]]

    def col(self, table, name):
        for c in self.tables[table]:
            if c.name == name:
                return c
        return None

    def has_col(self, table, col):
        return table in self.tables and col in self.cols(table)

    # derived sets ----------------------------------------------------------
    def owned_tables(self):
        """tables with an FK path to lexicons."""
        owned = {'lexicons'}
        changed = True
        while changed:
            changed = False
            for fk in self.fks:
                if fk.ref_table in owned and fk.table not in owned:
                    owned.add(fk.table)
                    changed = True
        return owned

    def lookup_tables(self):
        return set(self.tables) - self.owned_tables()

    def cascade_reachable(self):
        reach = {'lexicons'}
        changed = True
        while changed:
            changed = False
            for fk in self.fks:
                if fk.ref_table in reach and fk.on_delete == 'CASCADE' and fk.table not in reach:
                    reach.add(fk.table)
                    changed = True
        return reach

    def explain(self, sql, nparams=None, names=None):
        """compile-only: EXPLAIN prepares the statement; nothing is executed on data."""
        if names is not None:
            return self.conn.execute('EXPLAIN ' + sql, {n: None for n in names}).fetchall()
        return self.conn.execute('EXPLAIN ' + sql, [None] * (nparams or 0)).fetchall()
