#!/venv/bin/python
"""Self-test of the checkers (not a registered check): in-memory variants of /repo.

  selftest/run.py [-p C04] [-j 16] [-v]

Each variant is an in-memory overlay of one or more files of /repo (text substitution that must match exactly
once); `expect` is a rule id that must report a finding not present on the unchanged tree, or 'silent' for a
behaviour-preserving variant that must leave the verdict unchanged.  Also: every patch under /verif/seeded/*/
is applied in memory and the checks of its property must fire."""
import argparse
import json
import os
import subprocess
import sys
import glob
import re
from concurrent.futures import ProcessPoolExecutor

VERIF = os.path.dirname(os.path.dirname(os.path.abspath(__file__)))
sys.path.insert(0, VERIF)
sys.dont_write_bytecode = True

from wnstatic.src import Repo, AnalysisError  # noqa: E402
from wnstatic.runtime import run_rules, Ctx, load_known  # noqa: E402


def load_corpus():
    import importlib.util
    out = []
    for path in sorted(glob.glob(os.path.join(VERIF, 'selftest', 'corpus', 'c*.py'))):
        spec = importlib.util.spec_from_file_location('corpus_' + os.path.basename(path)[:-3], path)
        mod = importlib.util.module_from_spec(spec)
        spec.loader.exec_module(mod)
        pid = os.path.basename(path)[:-3].upper()
        for m in mod.MUTANTS:
            m = dict(m)
            m.setdefault('property', pid)
            m['name'] = f"{m['property']}/{m['name']}"
            m['source'] = os.path.basename(path)
            out.append(m)
    return out


def apply_edits(edits, root='/repo'):
    overlay = {}
    for e in edits:
        rel = e['file']
        src = overlay.get(rel)
        if src is None:
            with open(os.path.join(root, rel), encoding='utf-8') as fh:
                src = fh.read()
        cnt = src.count(e['old'])
        if cnt != e.get('count', 1):
            return None, f'{rel}: pattern matches {cnt} times (expected {e.get("count", 1)}): {e["old"][:50]!r}'
        src = src.replace(e['old'], e['new'])
        overlay[rel] = src
    return overlay, None


def findings_of(pid, overlay):
    ctx = Ctx(Repo(overlay=overlay))
    results, errors = run_rules(pid, ctx)
    keys = {}
    for r in results:
        for f in r.findings:
            keys[(f.rule, f.key)] = f.message
    return keys, errors


_base_cache = {}


def base(pid):
    if pid not in _base_cache:
        _base_cache[pid] = findings_of(pid, None)
    return _base_cache[pid]


def patch_overlay(patch_path, root='/repo'):
    """apply a unified diff to a scratch copy of the touched files (git apply on a temp index-free tree)."""
    import tempfile
    import shutil
    files = re.findall(r'^\+\+\+ b/(\S+)', open(patch_path).read(), flags=re.M)
    tmp = tempfile.mkdtemp(prefix='wnst-')
    try:
        for rel in files:
            os.makedirs(os.path.dirname(os.path.join(tmp, rel)), exist_ok=True)
            if os.path.exists(os.path.join(root, rel)):
                shutil.copy(os.path.join(root, rel), os.path.join(tmp, rel))
        r = subprocess.run(['git', 'apply', '--unsafe-paths', '--directory', tmp, patch_path],
                           capture_output=True, text=True, cwd='/')
        if r.returncode != 0:
            r = subprocess.run(['patch', '-p1', '-s', '-d', tmp, '-i', patch_path], capture_output=True, text=True)
            if r.returncode != 0:
                return None, f'patch does not apply: {r.stderr[:200]}'
        overlay = {}
        for rel in files:
            p = os.path.join(tmp, rel)
            if os.path.exists(p):
                overlay[rel] = open(p, encoding='utf-8').read()
        return overlay, None
    finally:
        shutil.rmtree(tmp, ignore_errors=True)


def run_one(m):
    pid = m['property']
    try:
        if 'patch' in m:
            overlay, err = patch_overlay(m['patch'])
        else:
            overlay, err = apply_edits(m['edits'])
        if err:
            return m['name'], 'SKIP', err
        bkeys, berr = base(pid)
        try:
            keys, errors = findings_of(pid, overlay)
        except AnalysisError as exc:
            keys, errors = {}, [str(exc)]
        new = {k: v for k, v in keys.items() if k not in bkeys}
        exp = m['expect']
        if exp == 'silent':
            if new or (errors and not berr):
                return m['name'], 'FAIL', f'expected silent, got {list(new)[:3]} errors={errors[:2]}'
            return m['name'], 'ok', 'silent'
        if exp == 'error':
            return (m['name'], 'ok', 'analysis error') if errors else (m['name'], 'FAIL', 'expected analysis error')
        rules = {k[0] for k in new}
        want = exp if isinstance(exp, list) else [exp]
        if any(w in rules or any(r.startswith(w) for r in rules) for w in want):
            hit = [k for k in new if k[0] in want or any(k[0].startswith(w) for w in want)][0]
            return m['name'], 'ok', f'{hit[0]} [{hit[1][:70]}]'
        return m['name'], 'FAIL', f'expected {want}, new findings {sorted(rules)} errors={errors[:2]}'
    except Exception as exc:  # noqa: BLE001
        import traceback
        return m['name'], 'FAIL', f'exception {type(exc).__name__}: {exc} {traceback.format_exc(limit=3)}'


def seeded():
    out = []
    for d in sorted(glob.glob(os.path.join(VERIF, 'seeded', '*'))):
        meta = os.path.join(d, 'meta.json')
        patch = os.path.join(d, 'patch.diff')
        if os.path.exists(meta) and os.path.exists(patch):
            mj = json.load(open(meta))
            for pid in mj.get('detected_by_properties', [mj['property']]):
                out.append({'name': f'seeded/{os.path.basename(d)}@{pid}', 'property': pid, 'patch': patch,
                            'expect': mj.get('expect_rules', {}).get(pid, pid), 'source': 'seeded'})
    return out


def main():
    ap = argparse.ArgumentParser()
    ap.add_argument('-p', '--property')
    ap.add_argument('-j', type=int, default=16)
    ap.add_argument('-v', action='store_true')
    ap.add_argument('-k', help='substring of variant name')
    args = ap.parse_args()
    corpus = load_corpus() + seeded()
    if args.property:
        corpus = [m for m in corpus if m['property'] == args.property.upper()]
    if args.k:
        corpus = [m for m in corpus if args.k in m['name']]
    with ProcessPoolExecutor(max_workers=args.j) as ex:
        results = list(ex.map(run_one, corpus))
    bad = 0
    for name, status, info in results:
        if status != 'ok' or args.v:
            print(f'{status:5} {name}: {info}')
        if status == 'FAIL':
            bad += 1
    n_ok = sum(1 for r in results if r[1] == 'ok')
    n_skip = sum(1 for r in results if r[1] == 'SKIP')
    print(f'{len(results)} variants: {n_ok} ok, {bad} failed, {n_skip} skipped')
    sys.exit(1 if bad else 0)


if __name__ == '__main__':
    main()
