#!/venv/bin/python
"""Self-test of the checkers (not a registered check): in-memory variants of /repo.

  selftest/run.py [-p C04] [-j 16] [-v]

Each variant is an in-memory overlay of one or more files of /repo (text substitution that must match exactly
once); `expect` is a rule id that must report a finding not present on the unchanged tree, or 'silent' for a
behaviour-preserving variant that must leave the verdict unchanged.  Also: every patch under /verif/seeded/*/
is applied in memory and the checks of its property must fire."""
import argparse
import json
import os
import subprocess
import sys
import glob
import re
from concurrent.futures import ProcessPoolExecutor

VERIF = os.path.dirname(os.path.dirname(os.path.abspath(__file__)))
sys.path.insert(0, VERIF)
sys.dont_write_bytecode = True

from wnstatic.src import Repo, AnalysisError  # noqa: E402
from wnstatic.runtime import run_rules, Ctx, load_known  # noqa: E402


from wnstatic.arming import load_corpus, run_variant, variants_for, patch_overlay_from_diff  # noqa: E402


def run_one(m):
    if 'patch' in m:
        overlay, err = patch_overlay_from_diff(m['patch'])
        if err:
            return m['name'], 'SKIP', err
        m = dict(m)
        m['overlay'] = overlay
    return run_variant(m)


def seeded():
    out = []
    for d in sorted(glob.glob(os.path.join(VERIF, 'seeded', '*'))):
        meta = os.path.join(d, 'meta.json')
        patch = os.path.join(d, 'patch.diff')
        if os.path.exists(meta) and os.path.exists(patch):
            mj = json.load(open(meta))
            for pid in mj.get('detected_by_properties', [mj['property']]):
                out.append({'name': f'seeded/{os.path.basename(d)}@{pid}', 'property': pid, 'patch': patch,
                            'expect': mj.get('expect_rules', {}).get(pid, pid), 'source': 'seeded'})
    return out


def main():
    ap = argparse.ArgumentParser()
    ap.add_argument('-p', '--property')
    ap.add_argument('-j', type=int, default=16)
    ap.add_argument('-v', action='store_true')
    ap.add_argument('-k', help='substring of variant name')
    ap.add_argument('--auto', action='store_true', help='also run the systematically generated variants')
    args = ap.parse_args()
    corpus = load_corpus() + seeded()
    if args.auto:
        from wnstatic.arming import GENERATORS
        for g in GENERATORS.values():
            corpus += g()
    if args.property:
        corpus = [m for m in corpus if m['property'] == args.property.upper()]
    if args.k:
        corpus = [m for m in corpus if args.k in m['name']]
    with ProcessPoolExecutor(max_workers=args.j) as ex:
        results = list(ex.map(run_one, corpus))
    bad = 0
    for name, status, info in results:
        if status != 'ok' or args.v:
            print(f'{status:5} {name}: {info}')
        if status == 'FAIL':
            bad += 1
    n_ok = sum(1 for r in results if r[1] == 'ok')
    n_skip = sum(1 for r in results if r[1] == 'SKIP')
    print(f'{len(results)} variants: {n_ok} ok, {bad} failed, {n_skip} skipped')
    sys.exit(1 if bad else 0)


if __name__ == '__main__':
    main()
