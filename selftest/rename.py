#!/venv/bin/python
"""Behaviour-preserving variants at scale: rename the local variables of every function of a module (parameters, globals,
attributes and keyword names stay) and require every check to keep its verdict.

usage: selftest/rename.py [module.py ...] [-v]        (default: every module of wn/, one variant per module)

A finding on such a variant is, by construction, a false alarm: the rule depends on the spelling of a local name.
"""
from __future__ import annotations
import ast
import os
import sys
import concurrent.futures as cf

sys.path.insert(0, os.path.join(os.path.dirname(os.path.abspath(__file__)), '..'))
from wnstatic.src import Repo  # noqa: E402
from wnstatic.arming import findings_of, base  # noqa: E402


def _bound_names(fn):
    """names bound directly in `fn` (not in nested defs): Store names, except-handler names, imports"""
    names, skip = set(), set()
    stack = list(ast.iter_child_nodes(fn))
    while stack:
        n = stack.pop()
        if isinstance(n, (ast.FunctionDef, ast.AsyncFunctionDef, ast.ClassDef)):
            skip.add(n.name)
            continue
        if isinstance(n, ast.Lambda):
            continue
        if isinstance(n, ast.Name) and isinstance(n.ctx, (ast.Store, ast.Del)):
            names.add(n.id)
        elif isinstance(n, ast.ExceptHandler) and n.name:
            skip.add(n.name)
        elif isinstance(n, (ast.Import, ast.ImportFrom)):
            for a in n.names:
                skip.add((a.asname or a.name).split('.')[0])
        elif isinstance(n, (ast.Global, ast.Nonlocal)):
            skip.update(n.names)
        elif isinstance(n, ast.MatchAs) and n.name:
            skip.add(n.name)
        stack.extend(ast.iter_child_nodes(n))
    return names - skip, skip


def _params(fn):
    a = fn.args
    ps = [p.arg for p in a.posonlyargs + a.args + a.kwonlyargs]
    if a.vararg:
        ps.append(a.vararg.arg)
    if a.kwarg:
        ps.append(a.kwarg.arg)
    return set(ps)


def _nested_scopes(fn):
    out = []
    stack = list(ast.iter_child_nodes(fn))
    while stack:
        n = stack.pop()
        if isinstance(n, (ast.FunctionDef, ast.AsyncFunctionDef, ast.Lambda)):
            out.append(n)
        stack.extend(ast.iter_child_nodes(n))
    return out


def rename_module(source, suffix='_rn'):
    """-> (new source, number of renamed names)"""
    tree = ast.parse(source)
    edits = []   # (lineno, col, old, new)
    count = 0
    modnames = set()
    for st in tree.body:
        for x in ast.walk(st):
            if isinstance(x, ast.Name) and isinstance(x.ctx, ast.Store):
                modnames.add(x.id)
            elif isinstance(x, (ast.FunctionDef, ast.ClassDef, ast.AsyncFunctionDef)):
                modnames.add(x.name)
        if isinstance(st, (ast.FunctionDef, ast.ClassDef, ast.AsyncFunctionDef)):
            pass

    def handle(fn, inherited):
        nonlocal count
        if isinstance(fn, ast.Lambda):
            return
        local, skip = _bound_names(fn)
        params = _params(fn)
        nested = _nested_scopes(fn)
        rebound_below = set()
        for g in nested:
            if isinstance(g, ast.Lambda):
                rebound_below |= {p.arg for p in g.args.args + g.args.kwonlyargs}
            else:
                rebound_below |= _params(g) | _bound_names(g)[0]
        todo = {n for n in local if n not in params and n not in skip and n not in rebound_below and not n.startswith('__')
                and n not in inherited and n != '_'}
        # class bodies nested in the function: leave alone
        if any(isinstance(x, ast.ClassDef) for x in ast.walk(fn) if x is not fn):
            todo = set()
        all_names = {x.id for x in ast.walk(fn) if isinstance(x, ast.Name)} | params | modnames
        for nm in sorted(todo):
            new = nm + suffix
            if new in all_names:
                continue
            count += 1
            for x in ast.walk(fn):
                if isinstance(x, ast.Name) and x.id == nm:
                    edits.append((x.lineno, x.col_offset, nm, new))
        for g in nested:
            if not isinstance(g, ast.Lambda) and getattr(g, '_handled', False) is False:
                g._handled = True
                handle(g, inherited | todo | local | params)

    for node in ast.walk(tree):
        if isinstance(node, (ast.FunctionDef, ast.AsyncFunctionDef)) and not getattr(node, '_handled', False):
            # only outermost here; nested are handled recursively
            node._handled = True
            handle(node, set())
    lines = source.split('\n')
    # ast col offsets are utf-8 byte offsets
    by_line = {}
    for ln, col, old, new in set(edits):
        by_line.setdefault(ln, []).append((col, old, new))
    for ln, items in by_line.items():
        raw = lines[ln - 1].encode('utf-8')
        for col, old, new in sorted(items, reverse=True):
            if raw[col:col + len(old.encode())] != old.encode():
                raise RuntimeError(f'offset mismatch at line {ln}: {lines[ln - 1]!r} {old}')
            raw = raw[:col] + new.encode() + raw[col + len(old.encode()):]
        lines[ln - 1] = raw.decode('utf-8')
    out = '\n'.join(lines)
    ast.parse(out)
    return out, count


def run_one(rel):
    repo = Repo()
    src = repo.read(rel)
    try:
        new, n = rename_module(src)
    except Exception as exc:  # noqa: BLE001
        return rel, 0, [f'renamer failed: {exc}']
    alarms = []
    overlay = {rel: new}
    for i in range(1, 21):
        pid = f'C{i:02d}'
        bk, _ = base(pid)
        try:
            keys, errors = findings_of(pid, overlay)
        except Exception as exc:  # noqa: BLE001
            keys, errors = {}, [f'{type(exc).__name__}: {exc}']
        for k, v in keys.items():
            if k not in bk:
                alarms.append(f'{pid} {k[0]} [{k[1][:80]}] {v[:200]}')
        for e in errors:
            alarms.append(f'{pid} ANALYSIS-ERROR {e[:200]}')
    return rel, n, alarms


def main():
    args = [a for a in sys.argv[1:] if not a.startswith('-')]
    repo = Repo()
    rels = args or [m.relpath for m in repo.modules.values()]
    total = 0
    bad = 0
    with cf.ProcessPoolExecutor(max_workers=min(16, len(rels))) as ex:
        for rel, n, alarms in ex.map(run_one, rels):
            total += n
            status = 'ok' if not alarms else 'ALARM'
            print(f'{status:5} {rel}: {n} locals renamed, {len(alarms)} alarm(s)')
            for a in alarms:
                bad += 1
                print('      ' + a)
    print(f'{len(rels)} module variants, {total} locals renamed, {bad} alarm(s)')
    return 1 if bad else 0


if __name__ == '__main__':
    sys.exit(main())
