#!/venv/bin/python
"""Behaviour-preserving variants at scale, second kind: in every function of a module, each `if A: X else: Y` (no elif) becomes
`if not A: Y else: X`, and each conditional expression `x if A else y` becomes `y if not A else x`.  The module is re-emitted with
ast.unparse (so layout, comments and line numbers change as well).  Every check must keep its verdict.

usage: selftest/swapif.py [module.py ...]      (default: every module of wn/, one variant per module)
"""
from __future__ import annotations
import ast
import os
import sys
import concurrent.futures as cf

sys.path.insert(0, os.path.join(os.path.dirname(os.path.abspath(__file__)), '..'))
from wnstatic.src import Repo  # noqa: E402
from wnstatic.arming import findings_of, base  # noqa: E402


def _neg(test):
    if isinstance(test, ast.UnaryOp) and isinstance(test.op, ast.Not):
        return test.operand
    return ast.UnaryOp(op=ast.Not(), operand=test)


class Swap(ast.NodeTransformer):
    def __init__(self):
        self.count = 0

    def visit_If(self, node):
        self.generic_visit(node)
        if node.orelse and not (len(node.orelse) == 1 and isinstance(node.orelse[0], ast.If)) \
                and not (len(node.body) == 1 and isinstance(node.body[0], ast.If) and False):
            # keep `if TYPE_CHECKING:` style module guards alone (only functions are visited anyway)
            self.count += 1
            return ast.copy_location(ast.If(test=_neg(node.test), body=node.orelse, orelse=node.body), node)
        return node

    def visit_IfExp(self, node):
        self.generic_visit(node)
        self.count += 1
        return ast.copy_location(ast.IfExp(test=_neg(node.test), body=node.orelse, orelse=node.body), node)


def swap_module(source):
    tree = ast.parse(source)
    sw = Swap()
    for n in ast.walk(tree):
        if isinstance(n, (ast.FunctionDef, ast.AsyncFunctionDef)):
            n.body = [sw.visit(st) for st in n.body]
    ast.fix_missing_locations(tree)
    out = ast.unparse(tree) + '\n'
    ast.parse(out)
    return out, sw.count


def run_one(rel):
    repo = Repo()
    src = repo.read(rel)
    try:
        new, n = swap_module(src)
    except Exception as exc:  # noqa: BLE001
        return rel, 0, [f'transformer failed: {exc}']
    alarms = []
    overlay = {rel: new}
    for i in range(1, 21):
        pid = f'C{i:02d}'
        bk, _ = base(pid)
        try:
            keys, errors = findings_of(pid, overlay)
        except Exception as exc:  # noqa: BLE001
            keys, errors = {}, [f'{type(exc).__name__}: {exc}']
        for k, v in keys.items():
            if k not in bk:
                alarms.append(f'{pid} {k[0]} [{k[1][:80]}] {v[:200]}')
        for e in errors:
            alarms.append(f'{pid} ANALYSIS-ERROR {e[:200]}')
    return rel, n, alarms


def main():
    args = [a for a in sys.argv[1:] if not a.startswith('-')]
    repo = Repo()
    rels = args or [m.relpath for m in repo.modules.values()]
    total = bad = 0
    with cf.ProcessPoolExecutor(max_workers=min(8, len(rels))) as ex:
        for rel, n, alarms in ex.map(run_one, rels):
            total += n
            print(f'{"ok" if not alarms else "ALARM":5} {rel}: {n} conditionals swapped, {len(alarms)} alarm(s)')
            for a in alarms:
                bad += 1
                print('      ' + a)
    print(f'{len(rels)} module variants, {total} conditionals swapped, {bad} alarm(s)')
    return 1 if bad else 0


if __name__ == '__main__':
    sys.exit(main())
