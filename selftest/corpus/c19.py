def E(f, old, new, count=1):
    return {'file': f, 'old': old, 'new': new, 'count': count}

A = 'wn/_add.py'
I = 'wn/_ili.py'
S = 'wn/schema.sql'
MUTANTS = [
    {'name': 'upsert-to-replace', 'expect': 'C19-R2',
     'edits': [E(A, """        INSERT INTO ilis
        VALUES (null,?,({ILISTAT_QUERY}),?,null)
            ON CONFLICT(id) DO
               UPDATE SET status_rowid=excluded.status_rowid,
                          definition=excluded.definition""", """        INSERT OR REPLACE INTO ilis
        VALUES (null,?,({ILISTAT_QUERY}),?,null)""")]},
    {'name': 'upsert-also-clears-metadata', 'expect': 'C19-R2',
     'edits': [E(A, "                          definition=excluded.definition", "                          definition=excluded.definition,\n                          metadata=excluded.metadata")]},
    {'name': 'upsert-only-status', 'expect': 'C19-R2',
     'edits': [E(A, "               UPDATE SET status_rowid=excluded.status_rowid,\n                          definition=excluded.definition", "               UPDATE SET status_rowid=excluded.status_rowid")]},
    {'name': 'upsert-do-nothing', 'expect': 'C19-R2',
     'edits': [E(A, """            ON CONFLICT(id) DO
               UPDATE SET status_rowid=excluded.status_rowid,
                          definition=excluded.definition""", """            ON CONFLICT(id) DO NOTHING""")]},
    {'name': 'swap-status-definition', 'expect': 'C19-R2',
     'edits': [E(A, """                 info.get('status', 'active'),
                 info.get('definition'))""", """                 info.get('definition'),
                 info.get('status', 'active'))""")]},
    {'name': 'status-default-differs', 'expect': 'C19-R2',
     'edits': [E(A, "statuses = set(info.get('status', 'active') for info in ili)", "statuses = set(info.get('status', 'provisional') for info in ili)")]},
    {'name': 'ilis-id-not-unique', 'expect': 'C19-R2',
     'edits': [E(S, "    metadata META,\n    UNIQUE (id)\n);", "    metadata META\n);")]},
    {'name': 'statuses-plain-insert', 'expect': 'C19-R1',
     'edits': [E(A, "cur.executemany('INSERT OR IGNORE INTO ili_statuses VALUES (null,?)',", "cur.executemany('INSERT INTO ili_statuses VALUES (null,?)',")]},
    {'name': 'loader-resets-synset-links', 'expect': 'C19-R1',
     'edits': [E(A, "        progress.set(count=0, total=len(ili), status='ILI')", "        progress.set(count=0, total=len(ili), status='ILI')\n        cur.execute('UPDATE synsets SET ili_rowid = NULL WHERE ili_rowid NOT IN (SELECT rowid FROM ilis)')")]},
    {'name': 'presupposed-insert-replaces', 'expect': 'C19-R3',
     'edits': [E(A, "        INSERT OR IGNORE INTO ilis\n        VALUES (null,?,({ILISTAT_QUERY}),?,?)", "        INSERT OR REPLACE INTO ilis\n        VALUES (null,?,({ILISTAT_QUERY}),?,?)")]},
    {'name': 'commit-per-batch', 'expect': 'C19-R4',
     'edits': [E(A, "            cur.executemany(query, data)\n            progress.update(len(data))\n\n\ndef remove(", "            cur.executemany(query, data)\n            conn.commit()\n            progress.update(len(data))\n\n\ndef remove(")]},
    {'name': 'header-not-lowercased', 'expect': 'C19-R5',
     'edits': [E(I, "        fields = tuple(map(str.lower, header.split('\\t')))", "        fields = tuple(header.split('\\t'))")]},
    {'name': 'benign-rename-batch', 'expect': 'silent',
     'edits': [E(A, """        for batch in _batch(ili):
            data = [
                (info['ili'],
                 info.get('status', 'active'),
                 info.get('definition'))
                for info in batch
            ]""", """        for chunk in _batch(ili):
            data = [
                (info['ili'],
                 info.get('status', 'active'),
                 info.get('definition'))
                for info in chunk
            ]""")]},
    {'name': 'benign-csv-reader-quote-none', 'expect': 'silent', 'property': 'C19',
     'edits': [E(I, """        for line in fh:
            yield dict(zip(fields, line.rstrip('\\r\\n').split('\\t')))""", """        import csv
        for row in csv.reader(fh, delimiter='\\t', quoting=csv.QUOTE_NONE):
            yield dict(zip(fields, row))""")]},
    {'name': 'ili-line-stripped-entirely', 'expect': 'C19-R6',
     'edits': [E(I, "line.rstrip('\\r\\n').split('\\t')", "line.strip().split('\\t')")]},
]
