def E(f, old, new, count=1):
    return {'file': f, 'old': old, 'new': new, 'count': count}

M = 'wn/morphy.py'
MUTANTS = [
    {'name': 'query-added-unchecked', 'expect': 'C17-R1',
     'edits': [E(M, "            if form in all_lemmas:\n                candidates.add(form)", "            candidates.add(form)")]},
    {'name': 'rule-output-unfiltered', 'expect': 'C17-R1',
     'edits': [E(M, "                if not initialized or candidate in all_lemmas:\n                    candidates.add(candidate)", "                candidates.add(candidate)")]},
    {'name': 'exceptions-of-any-pos', 'expect': 'C17-R1',
     'edits': [E(M, "            candidates.update(self._exceptions[pos].get(form, set()))", "            for exc in self._exceptions.values():\n                candidates.update(exc.get(form, set()))")]},
    {'name': 'uninitialized-drops-original', 'expect': 'C17-R1',
     'edits': [E(M, "        if not self._initialized:\n            result[pos] = {form}  # always include original when not initialized\n", "")]},
    {'name': 'full-suppletion-allowed', 'expect': 'C17-R1',
     'edits': [E(M, "            if form.endswith(suffix) and len(suffix) < len(form):", "            if form.endswith(suffix):")]},
    {'name': 'suffix-le-form', 'expect': 'C17-R1',
     'edits': [E(M, "            if form.endswith(suffix) and len(suffix) < len(form):", "            if form.endswith(suffix) and len(suffix) <= len(form):")]},
    {'name': 'satellites-without-rules', 'expect': 'C17-R3',
     'edits': [E(M, "DETACHMENT_RULES[ADJ_SAT] = DETACHMENT_RULES[ADJ]", "DETACHMENT_RULES[ADJ_SAT] = []")]},
    {'name': 'all-systems-rules', 'expect': 'C17-R4',
     'edits': [E(M, "            pos: [rule for rule in rules if rule[2] & _System.WN]", "            pos: [rule for rule in rules if rule[2] & _System.ALL]")]},
    {'name': 'lemma-is-last-form', 'expect': 'C17-R4',
     'edits': [E(M, "                lemma, *others = word.forms()", "                *others, lemma = word.forms()")]},
    {'name': 'exception-map-overwrites', 'expect': 'C17-R4',
     'edits': [E(M, """                    if other in pos_exc:
                        pos_exc[other].add(lemma)
                    else:
                        pos_exc[other] = {lemma}""", """                    pos_exc[other] = {lemma}""")]},
    {'name': 'unknown-pos-tries-all', 'expect': 'C17-R5',
     'edits': [E(M, "        else:\n            pos_list = []  # not handled by morphy", "        else:\n            pos_list = list(DETACHMENT_RULES)")]},
    {'name': 'benign-comment', 'expect': 'silent',
     'edits': [E(M, "            # avoid applying rules that perform full suppletion", "            # never detach a suffix that is the whole word")]},
]
