def E(f, old, new, count=1):
    return {'file': f, 'old': old, 'new': new, 'count': count}

A = 'wn/_add.py'
D = 'wn/_db.py'
S = 'wn/schema.sql'
Q = 'wn/_queries.py'
MUTANTS = [
    {'name': 'drop-fk-pragma', 'expect': 'C05-R2',
     'edits': [E(D, "        conn.execute('PRAGMA foreign_keys = ON')\n", "")]},
    {'name': 'fk-pragma-only-when-new', 'expect': 'C05-R2',
     'edits': [E(D, """        conn.execute('PRAGMA foreign_keys = ON')
        if DEBUG:
            conn.set_trace_callback(print)
        if not initialized:
            logger.info('initializing database: %s', dbpath)
            _init_db(conn)""", """        if DEBUG:
            conn.set_trace_callback(print)
        if not initialized:
            logger.info('initializing database: %s', dbpath)
            conn.execute('PRAGMA foreign_keys = ON')
            _init_db(conn)""")]},
    {'name': 'fk-off-during-add', 'expect': 'C05-R2',
     'edits': [E(A, "        cur.execute('PRAGMA journal_mode = MEMORY')", "        cur.execute('PRAGMA journal_mode = MEMORY')\n        cur.execute('PRAGMA foreign_keys = OFF')")]},
    {'name': 'counts-no-cascade', 'expect': 'C05-R1',
     'edits': [E(S, """    sense_rowid INTEGER NOT NULL REFERENCES senses(rowid) ON DELETE CASCADE,
    count INTEGER NOT NULL,""", """    sense_rowid INTEGER NOT NULL REFERENCES senses(rowid),
    count INTEGER NOT NULL,""")]},
    {'name': 'forms-lexicon-fk-no-cascade', 'expect': 'C05-R1',
     'edits': [E(S, "    lexicon_rowid INTEGER NOT NULL REFERENCES lexicons(rowid) ON DELETE CASCADE,\n    entry_rowid INTEGER NOT NULL REFERENCES entries(rowid) ON DELETE CASCADE,\n    form TEXT NOT NULL,",
                 "    lexicon_rowid INTEGER NOT NULL REFERENCES lexicons(rowid),\n    entry_rowid INTEGER NOT NULL REFERENCES entries(rowid) ON DELETE CASCADE,\n    form TEXT NOT NULL,")]},
    {'name': 'tags-undeclared-fk', 'expect': 'C05-R1',
     'edits': [E(S, """CREATE TABLE tags (
    form_rowid INTEGER NOT NULL REFERENCES forms (rowid) ON DELETE CASCADE,""", """CREATE TABLE tags (
    form_rowid INTEGER NOT NULL,""")]},
    {'name': 'remove-depth-1', 'expect': 'C05-R4',
     'edits': [E(A, "    for ext_id in get_lexicon_extensions(rowid):", "    for ext_id in get_lexicon_extensions(rowid, depth=1):")]},
    {'name': 'remove-skips-extensions', 'expect': 'C05-R4',
     'edits': [E(A, "            extensions = _find_all_extensions(rowid)", "            extensions = []")]},
    {'name': 'relink-conditional', 'expect': 'C05-R5',
     'edits': [E(A, "    cur.execute(query, (lexid, lexicon['id'], lexicon['version']))", "    if lexicon.get('requires'):\n        cur.execute(query, (lexid, lexicon['id'], lexicon['version']))")]},
    {'name': 'relink-dropped', 'expect': 'C05-R5',
     'edits': [E(A, "    cur.execute(query, (lexid, lexicon['id'], lexicon['version']))\n", "")]},
    {'name': 'relink-by-id-only', 'expect': 'C05-R5',
     'edits': [E(A, "         WHERE provider_id = ? AND provider_version = ?\n    '''\n    cur.execute(query, (lexid, lexicon['id'], lexicon['version']))",
                 "         WHERE provider_id = ?\n    '''\n    cur.execute(query, (lexid, lexicon['id']))")]},
    {'name': 'query-layer-writes', 'expect': 'C05-R3',
     'edits': [E(Q, """def get_modified(rowid: int) -> bool:
    query = 'SELECT modified FROM lexicons WHERE rowid = ?'""", """def get_modified(rowid: int) -> bool:
    connect().execute('UPDATE lexicons SET modified = 0 WHERE modified ISNULL')
    query = 'SELECT modified FROM lexicons WHERE rowid = ?'""")]},
    {'name': 'skip-test-after-lookup-tables', 'expect': 'C05-R6',
     'edits': [E(A, """            if skipmap[spec]:
                continue  # _precheck() says this should be skipped

            progress.flash('Updating lookup tables')
            _update_lookup_tables(lexicon, cur)
""", """            progress.flash('Updating lookup tables')
            _update_lookup_tables(lexicon, cur)
            if skipmap[spec]:
                continue  # _precheck() says this should be skipped
""")]},
    {'name': 'skip-test-dropped', 'expect': 'C05-R6',
     'edits': [E(A, """            if skipmap[spec]:
                continue  # _precheck() says this should be skipped
""", "")]},
    {'name': 'precheck-base-missing-not-skipped', 'expect': 'C05-R6',
     'edits': [E(A, """            elif base and cur.execute(lexqry, base).fetchone() is None:
                skipmap[key] = True""", """            elif base and cur.execute(lexqry, base).fetchone() is None:
                skipmap[key] = False""")]},
    {'name': 'benign-reorder-pragmas', 'expect': 'silent',
     'edits': [E(D, """        conn.execute('PRAGMA foreign_keys = ON')
        if DEBUG:
            conn.set_trace_callback(print)""", """        if DEBUG:
            conn.set_trace_callback(print)
        conn.execute('PRAGMA foreign_keys = ON')""")]},
    {'name': 'benign-inline-extension-lookup', 'expect': 'silent',
     'edits': [E(A, "    for ext_id in get_lexicon_extensions(rowid):", "    for ext_id in get_lexicon_extensions(rowid, depth=-1):")]},
    {'name': 'lookup-drops-sense-relation-types', 'expect': 'C05-R10',
     'edits': [E(A, """    reltypes.update(rel['relType']
                    for e in _entries(lexicon)
                    for s in _senses(e)
                    for rel in s.get('relations', []))
""", "")]},
    {'name': 'lookup-only-new-relation-types', 'expect': 'C05-R10',
     'edits': [E(A, """                   for rel in ss.get('relations', []))
    reltypes.update(""", """                   for rel in ss.get('relations', []) if rel['relType'] != 'hypernym')
    reltypes.update(""")]},
]
