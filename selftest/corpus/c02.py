def E(f, old, new, count=1):
    return {'file': f, 'old': old, 'new': new, 'count': count}

L = 'wn/lmf.py'
MUTANTS = [
    {'name': 'revert-example-meta', 'expect': 'C02-R3',
     'edits': [E(L, "    elem = ET.Element('Example', attrib=_meta_dict(example.get('meta')))", "    elem = ET.Element('Example')")]},
    {'name': 'definition-sourceSense-forgotten', 'expect': 'C02-R3',
     'edits': [E(L, """    if definition.get('sourceSense'):
        attrib['sourceSense'] = definition['sourceSense']
""", "")]},
    {'name': 'count-meta-forgotten', 'expect': 'C02-R3',
     'edits': [E(L, "    elem = ET.Element('Count', attrib=_meta_dict(count.get('meta')))", "    elem = ET.Element('Count')")]},
    {'name': 'requires-url-forgotten', 'expect': 'C02-R3',
     'edits': [E(L, """    if dep.get('url'):
        attrib['url'] = dep['url']
""", "")]},
    {'name': 'lexfile-written-in-1.0', 'expect': 'C02-R3',
     'edits': [E(L, """            if synset.get('lexfile'):
                attrib['lexfile'] = synset['lexfile']
        attrib.update(_meta_dict(synset.get('meta')))""", """        if synset.get('lexfile'):
            attrib['lexfile'] = synset['lexfile']
        attrib.update(_meta_dict(synset.get('meta')))""")]},
    {'name': 'adjposition-only-1.1', 'expect': 'C02-R3',
     'edits': [E(L, "        if sense.get('adjposition'):", "        if version >= (1, 1) and sense.get('adjposition'):")]},
    {'name': 'pronunciation-in-1.0', 'expect': ['C02-R1', 'C02-R3'],
     'edits': [E(L, """    if version >= (1, 1):
        for pron in lemma.get('pronunciations', []):
            elem.append(_build_pronunciation(pron))""", """    for pron in lemma.get('pronunciations', []):
        elem.append(_build_pronunciation(pron))""")]},
    {'name': 'tag-not-cdata', 'expect': 'C02-R2',
     'edits': [E(L, "    'Pronunciation',\n    'Tag',\n    'Definition',\n    'ILIDefinition',", "    'Pronunciation',\n    'Definition',\n    'ILIDefinition',")]},
    {'name': 'ilidefinition-not-meta', 'expect': 'C02-R2',
     'edits': [E(L, "    'Definition',\n    'ILIDefinition',\n    'SynsetRelation',\n    'LexiconExtension',\n}", "    'Definition',\n    'SynsetRelation',\n    'LexiconExtension',\n}")]},
    {'name': 'requires-not-list', 'expect': 'C02-R2',
     'edits': [E(L, "    'LexiconExtension',\n    'Requires',\n    'ExternalLexicalEntry',", "    'LexiconExtension',\n    'ExternalLexicalEntry',")]},
    {'name': 'members-not-split', 'expect': 'C02-R2',
     'edits': [E(L, "        if elem.get('members'):\n            elem['members'] = elem['members'].split()\n", "")]},
    {'name': 'meta-dict-drops-dc-type', 'expect': 'C02-R4',
     'edits': [E(L, "            'dc:type': meta.get('type', ''),\n", "")]},
    {'name': 'meta-dict-status-as-dc', 'expect': 'C02-R4',
     'edits': [E(L, "            'status': meta.get('status', ''),", "            'dc:status': meta.get('status', ''),")]},
    {'name': 'dc-uri-1.1-wrong', 'expect': 'C02-R1',
     'edits': [E(L, "    '1.1': 'https://globalwordnet.github.io/schemas/dc/',", "    '1.1': 'http://purl.org/dc/elements/1.1/',")], 'xfail': 'a different URI is still self-consistent (reader and writer share the table)'},
    {'name': 'lexicon-attrs-unquoted', 'expect': 'C02-R5',
     'edits': [E(L, "        f'{attr}={quoteattr(str(val))}' for attr, val in attrib.items()", "        f'{attr}=\"{val}\"' for attr, val in attrib.items()")]},
    {'name': 'dump-doctype-literal', 'expect': 'C02-R6',
     'edits': [E(L, "    doctype = _DOCTYPE.format(schema=_SCHEMAS[version])", "    doctype = f'<!DOCTYPE LexicalResource SYSTEM \"WN-LMF-{version}.dtd\">'")]},
    {'name': 'dump-doctype-first', 'expect': 'C02-R6',
     'edits': [E(L, """        print(_XMLDECL.decode('utf-8'), file=out)
        print(doctype, file=out)""", """        print(doctype, file=out)
        print(_XMLDECL.decode('utf-8'), file=out)""")]},
    {'name': 'benign-builder-local-var', 'expect': 'silent',
     'edits': [E(L, """    elem = ET.Element('Count', attrib=_meta_dict(count.get('meta')))
    elem.text = str(count['value'])""", """    metadata = _meta_dict(count.get('meta'))
    elem = ET.Element('Count', attrib=metadata)
    elem.text = str(count['value'])""")]},
    {'name': 'shared-no-meta-dict-alone-is-benign', 'expect': 'silent', 'property': 'C02',
     'edits': [E(L, """    else:
        d = {}
    return d""", """    else:
        d = _NO_META
    return d


_NO_META: dict[str, str] = {}""")]},
    {'name': 'shared-no-meta-dict-written', 'expect': ['C02-R7', 'C16-R4'],
     'edits': [E(L, """    else:
        d = {}
    return d""", """    else:
        d = _NO_META
    return d


_NO_META: dict[str, str] = {}"""),
               E(L, """    elem = ET.Element('Count', attrib=_meta_dict(count.get('meta')))
    elem.text = str(count['value'])""", """    attrib = _meta_dict(count.get('meta'))
    attrib.setdefault('dc:type', 'count')
    elem = ET.Element('Count', attrib=attrib)
    elem.text = str(count['value'])""")]},
    {'name': 'mutable-default-accumulates', 'expect': ['C02-R7', 'C16-R4'],
     'edits': [E(L, "def _meta_dict(meta: Optional[Metadata]) -> dict[str, str]:\n    if meta is not None:", "def _meta_dict(meta: Optional[Metadata], d: dict[str, str] = {}) -> dict[str, str]:\n    if meta is not None:"),
               E(L, """    else:
        d = {}
    return d""", """    else:
        d.clear()
    return d""")]},
]
MUTANTS = [m for m in MUTANTS if 'xfail' not in m]
