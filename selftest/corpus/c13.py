def E(f, old, new, count=1):
    return {'file': f, 'old': old, 'new': new, 'count': count}

T = 'wn/taxonomy.py'
C = 'wn/_core.py'
MUTANTS = [
    {'name': 'min_depth-drops-simulate_root', 'expect': 'C13-R2',
     'edits': [E(T, """    return min(
        (len(path) for path in synset.hypernym_paths(simulate_root=simulate_root)),""", """    return min(
        (len(path) for path in synset.hypernym_paths()),""")]},
    {'name': 'synset-shortcut-hardcodes-root', 'expect': 'C13-R2',
     'edits': [E(C, """        return taxonomy.common_hypernyms(
            self, other, simulate_root=simulate_root
        )""", """        return taxonomy.common_hypernyms(
            self, other, simulate_root=False
        )""")]},
    {'name': 'a-s-merge-one-way', 'expect': 'C13-R3',
     'edits': [E(T, """    elif pos == ADJ_SAT:
        synsets.extend(wordnet.synsets(pos=ADJ))
""", "")]},
    {'name': 'lch-order-by-set', 'expect': ['C13-R4', 'C16-R1'],
     'edits': [E(T, "    for ss in _sorted_common(common, from_self):", "    for ss in common:")]},
    {'name': 'roots-by-hyponyms', 'expect': 'C13-R5',
     'edits': [E(T, "    return [ss for ss in _synsets_for_pos(wordnet, pos) if not ss.hypernyms()]", "    return [ss for ss in _synsets_for_pos(wordnet, pos) if not ss.hyponyms()]")]},
    {'name': 'paths-ignore-instance-hypernym', 'expect': 'C13-R5',
     'edits': [E(T, "    paths = list(synset.relation_paths('hypernym', 'instance_hypernym'))", "    paths = list(synset.relation_paths('hypernym'))")]},
    {'name': 'common-hypernyms-exclude-self', 'expect': 'C13-R5',
     'edits': [E(T, """    from_self = _hypernym_paths(synset, simulate_root, True)
    from_other = _hypernym_paths(other, simulate_root, True)
    common = set(flatten(from_self)).intersection(flatten(from_other))
    return _sorted_common(common, from_self)""", """    from_self = _hypernym_paths(synset, simulate_root, False)
    from_other = _hypernym_paths(other, simulate_root, False)
    common = set(flatten(from_self)).intersection(flatten(from_other))
    return _sorted_common(common, from_self)""")]},
    {'name': 'benign-sorted-common-list-comprehension', 'expect': 'silent',
     'edits': [E(T, "    return sorted(unique_list(ss for ss in flatten(paths) if ss in common))",
                 "    ordered = unique_list(flatten(paths))\n    return sorted([ss for ss in ordered if ss in common])")]},
    {'name': 'sorted-common-other-paths-content', 'expect': 'C13-R5',
     'edits': [E(T, "    return sorted(unique_list(ss for ss in flatten(paths) if ss in common))",
                 "    return sorted(unique_list(ss for ss in flatten(paths) if ss not in common))")]},
    {'name': 'fake-root-takes-the-synset-lexicon', 'expect': 'C13-R6',
     'edits': [E(T, "        root = _core.Synset.empty(id=_FAKE_ROOT, _wordnet=synset._wordnet)",
                 "        root = _core.Synset.empty(id=_FAKE_ROOT, _lexid=synset._lexid, _wordnet=synset._wordnet)")]},
    {'name': 'shortest-path-keeps-start', 'expect': 'C13-R5',
     'edits': [E(T, "    return pathmap[key][1:]", "    return pathmap[key]")]},
    {'name': 'max_depth-default-minus-one', 'expect': 'C13-R5',
     'edits': [E(T, """    return max(
        (len(path) for path in synset.hypernym_paths(simulate_root=simulate_root)),
        default=0
    )""", """    return max(
        (len(path) for path in synset.hypernym_paths(simulate_root=simulate_root)),
        default=-1
    )""")]},
    {'name': 'hypernym-paths-recursive', 'expect': ['C13-R1', 'C11-R1'],
     'edits': [E(T, """    paths = list(synset.relation_paths('hypernym', 'instance_hypernym'))
    if include_self:""", """    paths = [[h] + p for h in synset.hypernyms() for p in (_hypernym_paths(h, False, False) or [[]])]
    if include_self:""")]},
    {'name': 'benign-docstring-edit', 'expect': 'silent',
     'edits': [E(T, '    """Return the list of root synsets in *wordnet*.', '    """Return all the root synsets in *wordnet*.')]},
]

MUTANTS += [
    {'name': 'benign-rename-locals-shortest', 'expect': 'silent',
     'edits': [E(T, """    pathmap = _shortest_hyp_paths(synset, other, simulate_root)
    key = min(pathmap, key=lambda key: len(pathmap[key]), default=None)
    if key is None:
        raise wn.Error(f'no path between {synset!r} and {other!r}')
    return pathmap[key][1:]""", """    paths = _shortest_hyp_paths(synset, other, simulate_root)
    pivot = min(paths, key=lambda k: len(paths[k]), default=None)
    if pivot is None:
        raise wn.Error(f'no path between {synset!r} and {other!r}')
    return paths[pivot][1:]""")]},
]
