def E(f, old, new, count=1):
    return {'file': f, 'old': old, 'new': new, 'count': count}

C = 'wn/_core.py'
MUTANTS = [
    {'name': 'ili-none-not-dropped', 'expect': 'C12-R2',
     'edits': [E(C, """            if ili is None:
                continue
            synset_rel = Relation(""", """            synset_rel = Relation(""")]},
    {'name': 'relation-reports-own-id-as-source', 'expect': 'C12-R1',
     'edits': [E(C, "                relname, srcids[srcrowid], ssid, lexicon, metadata=metadata\n            )\n            local_ss_rows", "                relname, self.id, ssid, lexicon, metadata=metadata\n            )\n            local_ss_rows")]},
    {'name': 'unpack-shifted-ili-and-pos', 'expect': 'C12-R1',
     'edits': [E(C, "        for relname, lexicon, metadata, srcrowid, ssid, _, ili, *_ in iterable:", "        for relname, lexicon, metadata, srcrowid, ssid, ili, _, *_ in iterable:")]},
    {'name': 'backmap-in-expand-scope', 'expect': ['C12-R1', 'C04-R2'],
     'edits': [E(C, "local_ss_rows = list(get_synsets_for_ilis([ili], lexicon_rowids=lexids))", "local_ss_rows = list(get_synsets_for_ilis([ili], lexicon_rowids=expids))")]},
    {'name': 'placeholder-without-ili', 'expect': 'C12-R1',
     'edits': [E(C, """                    id=_INFERRED_SYNSET,
                    ili=ili,
                    _lexid=self._lexid,""", """                    id=_INFERRED_SYNSET,
                    _lexid=self._lexid,""")]},
    {'name': 'sources-include-self', 'expect': 'C12-R1',
     'edits': [E(C, "            if rowid not in (self._id, NON_ROWID)\n", "")]},
    {'name': 'sources-any-type', 'expect': 'C12-R1',
     'edits': [E(C, "        iterable = get_synset_relations(set(srcids), args, expids)", "        iterable = get_synset_relations(set(srcids), (), expids)")]},
    {'name': 'expanded-first', 'expect': 'C12-R3',
     'edits': [E(C, """        if self._id != NON_ROWID:
            yield from self._iter_local_relations(args)
        # then attempt to expand via ILI
        if self._ili is not None and self._wordnet._expanded_ids:
            yield from self._iter_expanded_relations(args)""", """        if self._ili is not None and self._wordnet._expanded_ids:
            yield from self._iter_expanded_relations(args)
        if self._id != NON_ROWID:
            yield from self._iter_local_relations(args)""")]},
    {'name': 'expand-empty-means-default', 'expect': 'C12-R4',
     'edits': [E(C, "        if expand is None:\n            if self._default_mode:", "        if not expand:\n            if self._default_mode:")]},
    {'name': 'default-expand-includes-missing', 'expect': 'C12-R4',
     'edits': [E(C, """                    for id, ver, _id in deps
                    if _id is not None
                )""", """                    for id, ver, _id in deps
                )""")]},
    {'name': 'warning-always', 'expect': 'C12-R4',
     'edits': [E(C, """                    if missing:
                        warnings.warn(""", """                    if True:
                        warnings.warn(""")]},
    {'name': 'restricted-default-star', 'expect': 'C12-R4',
     'edits': [E(C, "            if self._default_mode:\n                expand = '*'", "            if True:\n                expand = '*'")]},
    {'name': 'benign-rename-unpacked', 'expect': 'silent',
     'edits': [E(C, """        for relname, lexicon, metadata, srcrowid, ssid, _, ili, *_ in iterable:
            if ili is None:
                continue
            synset_rel = Relation(
                relname, srcids[srcrowid], ssid, lexicon, metadata=metadata
            )
            local_ss_rows = list(get_synsets_for_ilis([ili], lexicon_rowids=lexids))""", """        for reltype, lexicon, metadata, src_id, ssid, _, tgt_ili, *_ in iterable:
            ili = tgt_ili
            if tgt_ili is None:
                continue
            synset_rel = Relation(
                reltype, srcids[src_id], ssid, lexicon, metadata=metadata
            )
            local_ss_rows = list(get_synsets_for_ilis([tgt_ili], lexicon_rowids=lexids))""")], 'xfail': 'placeholder keyword ili=ili alias not followed'},
    {'name': 'deps-keyed-by-provider-id', 'expect': 'C12-R4',
     'edits': [E(C, """                deps = [(id, ver, _id)
                        for lex in self._lexicons
                        for id, ver, _, _id in get_lexicon_dependencies(lex._id)]""", """                deps = list({id: (id, ver, _id)
                             for lex in self._lexicons
                             for id, ver, _, _id in get_lexicon_dependencies(lex._id)}.values())""")]},
    {'name': 'benign-deps-keyed-by-id-and-version', 'expect': 'silent', 'property': 'C12',
     'edits': [E(C, """                deps = [(id, ver, _id)
                        for lex in self._lexicons
                        for id, ver, _, _id in get_lexicon_dependencies(lex._id)]""", """                deps = list({(id, ver): (id, ver, _id)
                             for lex in self._lexicons
                             for id, ver, _, _id in get_lexicon_dependencies(lex._id)}.values())""")]},
]
MUTANTS = [m for m in MUTANTS if 'xfail' not in m]
