def E(f, old, new, count=1):
    return {'file': f, 'old': old, 'new': new, 'count': count}

Q = 'wn/_queries.py'
C = 'wn/_core.py'
MUTANTS = [
    {'name': 'revert-star-in-whole-argument', 'expect': 'C08-R1',
     'edits': [E(Q, "        limit = '-1' if '*' in specifier else '1'", "        limit = '-1' if '*' in lexicon else '1'")]},
    {'name': 'order-from-whole-argument', 'expect': 'C08-R1',
     'edits': [E(Q, "        order = 'ASC' if '*' in specifier else 'DESC'", "        order = 'ASC' if '*' in lexicon else 'DESC'")]},
    {'name': 'revert-order-by', 'expect': 'C08-R2',
     'edits': [E(Q, "             ORDER BY rowid {order}\n", "")]},
    {'name': 'oldest-first', 'expect': 'C08-R2',
     'edits': [E(Q, "        order = 'ASC' if '*' in specifier else 'DESC'", "        order = 'ASC'")]},
    {'name': 'order-by-version-string', 'expect': 'C08-R2',
     'edits': [E(Q, "             ORDER BY rowid {order}", "             ORDER BY version {order}")]},
    {'name': 'bare-id-prefix-match', 'expect': 'C08-R3',
     'edits': [E(Q, "            specifier += ':*'", "            specifier += '*'")]},
    {'name': 'glob-on-id-only', 'expect': 'C08-R3',
     'edits': [E(Q, '             WHERE id || ":" || version GLOB :specifier', '             WHERE id GLOB :specifier')]},
    {'name': 'language-like', 'expect': 'C08-R3',
     'edits': [E(Q, "               AND (:language ISNULL OR language = :language)", "               AND (:language ISNULL OR language GLOB :language || '*')")]},
    {'name': 'colon-star-always', 'expect': 'C08-R3',
     'edits': [E(Q, "        if ':' not in specifier:\n            specifier += ':*'", "        if not specifier.endswith('*'):\n            specifier += ':*'")]},
    {'name': 'no-error-with-lang', 'expect': 'C08-R4',
     'edits': [E(Q, "    if not found and (lexicon != '*' or lang is not None):", "    if not found and lexicon != '*':")]},
    {'name': 'lexicons-swallows-everything', 'expect': 'C08-R4',
     'edits': [E(C, "    except wn.Error:\n        return []\n    else:\n        return w.lexicons()", "    except Exception:\n        return []\n    else:\n        return w.lexicons()")]},
    {'name': 'wordnet-empty-selection-ok', 'expect': 'C08-R4',
     'edits': [E(C, "        lexs = list(find_lexicons(lexicon or '*', lang=lang))", "        try:\n            lexs = list(find_lexicons(lexicon or '*', lang=lang))\n        except wn.Error:\n            lexs = []")]},
    {'name': 'benign-rename-loop-var', 'expect': 'silent',
     'edits': [E(Q, """    for specifier in lexicon.split():
        limit = '-1' if '*' in specifier else '1'
        # a single result is the most recently added lexicon
        order = 'ASC' if '*' in specifier else 'DESC'
        if ':' not in specifier:
            specifier += ':*'""", """    for specifier in lexicon.split():
        starred = '*' in specifier
        limit = '-1' if '*' in specifier else '1'
        # a single result is the most recently added lexicon
        order = 'ASC' if '*' in specifier else 'DESC'
        if ':' not in specifier:
            specifier += ':*'""")]},
    {'name': 'lexicons-strips-specifier', 'expect': 'C08-R4',
     'edits': [E(C, """    try:
        w = Wordnet(lang=lang, lexicon=lexicon)
    except wn.Error:
        return []""", """    try:
        lexicon = lexicon.lower() if lexicon else lexicon
        w = Wordnet(lang=lang, lexicon=lexicon)
    except wn.Error:
        return []""")]},
]
