def E(f, old, new, count=1):
    return {'file': f, 'old': old, 'new': new, 'count': count}

Q = 'wn/_queries.py'
C = 'wn/_core.py'
A = 'wn/_add.py'
U = 'wn/_util.py'
MUTANTS = [
    {'name': 'senses-rank-covers-one-arm', 'expect': 'C09-R1',
     'edits': [E(Q, """            s.entry_rowid IN
               (SELECT entry_rowid
                  FROM forms
                 WHERE (form IN wordforms {or_norm}) {and_rank} {in_lex})""", """            s.entry_rowid IN
               (SELECT entry_rowid
                  FROM forms
                 WHERE form IN wordforms {or_norm} {and_rank} {in_lex})""")]},
    {'name': 'synsets-always-lemma-only', 'expect': 'C09-R1',
     'edits': [E(Q, """        and_rank = '' if search_all_forms else 'AND rank = 0'
        in_lex = ''
        if lexicon_rowids:
            in_lex = (f'AND f.lexicon_rowid""", """        and_rank = 'AND rank = 0'
        in_lex = ''
        if lexicon_rowids:
            in_lex = (f'AND f.lexicon_rowid""")]},
    {'name': 'entries-ignore-normalized-flag', 'expect': 'C09-R1',
     'edits': [E(Q, """        or_norm = 'OR normalized_form IN wordforms' if normalized else ''
        and_rank = '' if search_all_forms else 'AND rank = 0'
        conditions.append(f'''
            e.rowid IN""", """        or_norm = 'OR normalized_form IN wordforms'
        and_rank = '' if search_all_forms else 'AND rank = 0'
        conditions.append(f'''
            e.rowid IN""")]},
    {'name': 'senses-pos-filter-dropped', 'expect': 'C09-R1',
     'edits': [E(Q, """    if pos:
        conditions.append('e.pos = ?')
        params.append(pos)
    if lexicon_rowids:
        conditions.append(f's.lexicon_rowid""", """    if lexicon_rowids:
        conditions.append(f's.lexicon_rowid""")]},
    {'name': 'wordnet-default-normalizer-lower', 'expect': 'C09-R2',
     'edits': [E(C, "        normalizer: Optional[NormalizeFunction] = normalize_form,", "        normalizer: Optional[NormalizeFunction] = str.lower,")]},
    {'name': 'normalize-without-nfkd', 'expect': 'C09-R2',
     'edits': [E(U, "    return ''.join(c for c in normalize('NFKD', s.lower()) if not combining(c))", "    return s.lower()")]},
    {'name': 'normalized-column-always-filled', 'expect': ['C09-R2', 'C01-R2'],
     'edits': [E(A, """                    (form.get('id'), lexid, eid, lid,
                     written_form, norm if norm != written_form else None,""", """                    (form.get('id'), lexid, eid, lid,
                     written_form, norm,""")]},
    {'name': 'backoff-always', 'expect': 'C09-R3',
     'edits': [E(C, "    if not results and normalize:", "    if normalize:")]},
    {'name': 'backoff-drops-pos', 'expect': 'C09-R3',
     'edits': [E(C, """            for data in query_func(
                forms=[normalize(f) for f in _forms], pos=_pos, **kwargs
            )""", """            for data in query_func(
                forms=[normalize(f) for f in _forms], pos=pos, **kwargs
            )""")]},
    {'name': 'lemmatizer-result-plus-original', 'expect': 'C09-R3',
     'edits': [E(C, "    if not forms:\n        forms = {pos: {form}}", "    forms.setdefault(pos, set()).add(form)")], 'xfail': 'mutates a possibly shared mapping; caught? (kept for review)'},
    {'name': 'normalized-flag-always-true', 'expect': 'C09-R3',
     'edits': [E(C, "    kwargs['normalized'] = bool(normalize)", "    kwargs['normalized'] = True")]},
    {'name': 'dedupe-via-set', 'expect': ['C09-R4', 'C16-R1'],
     'edits': [E(C, """    unique_results: list[C] = []
    seen: set[C] = set()
    for result in results:
        if result not in seen:
            unique_results.append(result)
            seen.add(result)
    return unique_results""", """    return list(set(results))""")]},
    {'name': 'benign-sql-indentation', 'expect': 'silent',
     'edits': [E(Q, """            e.rowid IN
               (SELECT entry_rowid
                  FROM forms
                 WHERE (form IN wordforms {or_norm}) {and_rank} {in_lex})""", """            e.rowid IN (SELECT entry_rowid FROM forms
                         WHERE (form IN wordforms {or_norm}) {and_rank} {in_lex})""")]},
]
MUTANTS = [m for m in MUTANTS if 'xfail' not in m]
