def E(f, old, new, count=1):
    return {'file': f, 'old': old, 'new': new, 'count': count}

V = 'wn/validate.py'
K = 'wn/constants.py'
A = 'wn/_add.py'
S = 'wn/schema.sql'
MUTANTS = [
    {'name': 'revert-sspos-guard', 'expect': 'C18-R1',
     'edits': [E(V, "            and r['target'] in sspos\n", "")]},
    {'name': 'reverse-lookup-unguarded', 'expect': 'C18-R1',
     'edits': [E(V, """            if typ in REVERSE_RELATIONS
            and (tgt, REVERSE_RELATIONS[typ], src) not in regular}""", """            if (tgt, REVERSE_RELATIONS[typ], src) not in regular}""")]},
    {'name': 'optional-pos-subscript', 'expect': 'C18-R1',
     'edits': [E(V, "    sspos = {ss['id']: ss.get('partOfSpeech') for ss in _synsets(lex)}", "    sspos = {ss['id']: ss['partOfSpeech'] for ss in _synsets(lex)}")]},
    {'name': 'ili-definition-subscript-unguarded', 'expect': 'C18-R1',
     'edits': [E(V, "            if ss['ili'] and ss['ili'] != 'in' and ss.get('ili_definition')}", "            if ss['ili'] and ss['ili'] != 'in'}")]},
    {'name': 'dc-type-without-fallback', 'expect': 'C18-R1',
     'edits': [E(V, "    return (r.get('meta') or {}).get('type')", "    return r.get('meta').get('type')")]},
    {'name': 'ids-wrong-key', 'expect': 'C18-R1',
     'edits': [E(V, "    synset_ids = ids['synset']", "    synset_ids = ids['synsets']")]},
    {'name': 'code-unregistered', 'expect': 'C18-R2',
     'edits': [E(V, "    'W502': _self_loop,\n", "")]},
    {'name': 'code-bound-twice', 'expect': 'C18-R2',
     'edits': [E(V, "    'W306': _blank_synset_example,", "    'W306': _blank_synset_definition,")]},
    {'name': 'select-ignores-category', 'expect': 'C18-R2',
     'edits': [E(V, "            if code in selectset or code[0] in selectset]", "            if code in selectset]")]},
    {'name': 'checks-wrapped-in-try', 'expect': 'C18-R2',
     'edits': [E(V, """        report[code] = {'message': message,
                        'items': func(lex, ids)}""", """        try:
            items = func(lex, ids)
        except Exception:
            items = {}
        report[code] = {'message': message,
                        'items': items}""")]},
    {'name': 'reverse-not-involution', 'expect': 'C18-R3',
     'edits': [E(K, "    'hyponym': 'hypernym',", "    'hyponym': 'instance_hypernym',")]},
    {'name': 'target-nullable', 'expect': 'C18-R4',
     'edits': [E(S, """    source_rowid INTEGER NOT NULL REFERENCES synsets(rowid) ON DELETE CASCADE,
    target_rowid INTEGER NOT NULL REFERENCES synsets(rowid) ON DELETE CASCADE,
    type_rowid INTEGER NOT NULL REFERENCES relation_types(rowid),
    metadata META
);
CREATE INDEX synset_relation_source_index""", """    source_rowid INTEGER NOT NULL REFERENCES synsets(rowid) ON DELETE CASCADE,
    target_rowid INTEGER REFERENCES synsets(rowid) ON DELETE CASCADE,
    type_rowid INTEGER NOT NULL REFERENCES relation_types(rowid),
    metadata META
);
CREATE INDEX synset_relation_source_index""")]},
    {'name': 'senses-insert-or-ignore', 'expect': ['C18-R4', 'C01-R2'],
     'edits': [E(A, """        INSERT INTO senses
        VALUES (null,""", """        INSERT OR IGNORE INTO senses
        VALUES (null,""")]},
    {'name': 'benign-reorder-checks', 'expect': 'silent',
     'edits': [E(V, "    'W501': _hypernym_wrong_pos,\n    'W502': _self_loop,", "    'W502': _self_loop,\n    'W501': _hypernym_wrong_pos,")]},
    {'name': 'benign-blank-not-strip', 'expect': 'silent', 'property': 'C18',
     'edits': [E(V, 'if any(dfn["text"].strip() == "" for dfn in ss.get("definitions", []))', 'if any(not dfn["text"].strip() for dfn in ss.get("definitions", []))')]},
    {'name': 'blank-example-empty-only', 'expect': 'C18-R6',
     'edits': [E(V, 'if any(ex["text"].strip() == "" for ex in ss.get("examples", []))', 'if any(ex["text"] == "" for ex in ss.get("examples", []))')]},
    {'name': 'wrong-pos-any-relation', 'expect': 'C18-R7',
     'edits': [E(V, "            if r['relType'] == 'hypernym'\n            and r['target'] in sspos", "            if r['target'] in sspos")]},
    {'name': 'missing-ili-definition-or', 'expect': 'C18-R7',
     'edits': [E(V, "            if ss['ili'] == 'in' and not ss.get('ili_definition')}", "            if ss['ili'] == 'in' or not ss.get('ili_definition')}")]},
    {'name': 'multiples-at-least-one', 'expect': 'C18-R7',
     'edits': [E(V, "if cnt > 1", "if cnt >= 1")]},
    {'name': 'benign-redundant-relation-loop', 'expect': 'silent', 'property': 'C18',
     'edits': [E(V, """    return {
        src: ({'type': typ, 'target': tgt} | ({'dc:type': dctyp} if dctyp else {}))
        for src, typ, tgt, dctyp in redundant
    }""", """    result: _Result = {}
    for src, typ, tgt, dctyp in redundant:
        item = {'type': typ, 'target': tgt}
        if dctyp:
            item['dc:type'] = dctyp
        result[src] = item
    return result""")]},
]
