def E(f, old, new, count=1):
    return {'file': f, 'old': old, 'new': new, 'count': count}

A = 'wn/_add.py'
Q = 'wn/_queries.py'
C = 'wn/_core.py'
D = 'wn/_db.py'
MUTANTS = [
    {'name': 'swap-variety-notation', 'expect': 'C01-R2',
     'edits': [E(A, """                        (eid, lid, None, 0,
                         p['text'], p.get('variety'), p.get('notation'),""", """                        (eid, lid, None, 0,
                         p['text'], p.get('notation'), p.get('variety'),""")]},
    {'name': 'lemma-script-dropped', 'expect': 'C01-R2',
     'edits': [E(A, "                     entry['lemma'].get('script'), 0)", "                     None, 0)")]},
    {'name': 'forms-enumerate-from-0', 'expect': ['C01-R2', 'C01-R5'],
     'edits': [E(A, """            for i, form in enumerate(_forms(entry), 1):
                if _is_external(form):
                    continue""", """            for i, form in enumerate(_forms(entry), 0):
                if _is_external(form):
                    continue""")]},
    {'name': 'tags-rank-off-by-one', 'expect': ['C01-R2', 'C01-R5'],
     'edits': [E(A, """            for i, form in enumerate(_forms(entry), 1):
                # rank is not valid in FORM_QUERY for external forms
                rank = -1 if _is_external(form) else i
                for tag in form.get('tags', []):""", """            for i, form in enumerate(_forms(entry)):
                # rank is not valid in FORM_QUERY for external forms
                rank = -1 if _is_external(form) else i
                for tag in form.get('tags', []):""")]},
    {'name': 'relation-source-owner-of-target', 'expect': ['C01-R3', 'C01-R2'],
     'edits': [E(A, "             synset['id'], lexidmap.get(synset['id'], lexid),\n             relation['target'], lexidmap.get(relation['target'], lexid),",
                 "             synset['id'], lexidmap.get(relation['target'], lexid),\n             relation['target'], lexidmap.get(relation['target'], lexid),")]},
    {'name': 'sense-relation-swap-slid-tlid', 'expect': ['C01-R3', 'C01-R2'],
     'edits': [E(A, "                    s_s_rels.append((sense['id'], slid, tlid, relation))", "                    s_s_rels.append((sense['id'], tlid, slid, relation))")]},
    {'name': 'counts-owner-plain-lexid', 'expect': ['C01-R3', 'C01-R2'],
     'edits': [E(A, "             sense['id'], lexidmap.get(sense['id'], lexid),\n             count['value'],", "             sense['id'], lexid,\n             count['value'],")]},
    {'name': 'synset-lexicalized-default-false', 'expect': ['C01-R6', 'C01-R2'],
     'edits': [E(A, "             ss.get('lexicalized', True),", "             ss.get('lexicalized', False),")]},
    {'name': 'find_entries-no-rank-order', 'expect': 'C01-R5',
     'edits': [E(Q, "         ORDER BY e.rowid, e.id, f.rank", "         ORDER BY e.rowid, e.id")]},
    {'name': 'get_senses-order-by-rowid', 'expect': 'C01-R5',
     'edits': [E(Q, "         ORDER BY s.{sourcetype}_rank", "         ORDER BY s.rowid")]},
    {'name': 'definitions-params-swapped', 'expect': 'C01-R1',
     'edits': [E(Q, "    return conn.execute(query, (synset_rowid, *lexicon_rowids)).fetchall()", "    return conn.execute(query, (*lexicon_rowids, synset_rowid)).fetchall()")]},
    {'name': 'synset-relations-params-order', 'expect': 'C01-R1',
     'edits': [E(Q, """        params.extend(relation_types)
    params.extend(lexicon_rowids)
    params.extend(source_rowids)""", """        params.extend(relation_types)
    params.extend(source_rowids)
    params.extend(lexicon_rowids)""")]},
    {'name': 'proposed-ili-missing-param', 'expect': 'C01-R1',
     'edits': [E(A, "                pro_ili_data.append((ss['id'], lexid, text, meta))", "                pro_ili_data.append((ss['id'], lexid, text))")]},
    {'name': 'find_synsets-select-swapped', 'expect': 'C01-R7',
     'edits': [E(Q, """        SELECT DISTINCT ss.id, ss.pos,
                        (SELECT ilis.id FROM ilis WHERE ilis.rowid=ss.ili_rowid),
                        ss.lexicon_rowid, ss.rowid""", """        SELECT DISTINCT ss.id, ss.pos,
                        (SELECT ilis.id FROM ilis WHERE ilis.rowid=ss.ili_rowid),
                        ss.rowid, ss.lexicon_rowid""")]},
    {'name': 'pronunciation-select-swapped', 'expect': 'C01-R7',
     'edits': [E(Q, "        SELECT value, variety, notation, phonemic, audio", "        SELECT value, notation, variety, phonemic, audio")]},
    {'name': 'sense-relation-unpack-short', 'expect': 'C01-R7',
     'edits': [E(C, "        for relname, lexicon, metadata, sid, eid, ssid, lexid, rowid in iterable:", "        for relname, lexicon, metadata, sid, eid, ssid, rowid in iterable:"),
               E(C, "                sid, eid, ssid, lexid, rowid, _wordnet=self._wordnet", "                sid, eid, ssid, rowid, rowid, _wordnet=self._wordnet")]},
    {'name': 'revert-frame-id-subscript', 'expect': ['C01-R4'],
     'edits': [E(A, "            'id': frame.get('id', ''),", "            'id': frame['id'],")]},
    {'name': 'lexfile-subscript', 'expect': ['C01-R4', 'C01-R2'],
     'edits': [E(A, "             ss.get('lexfile'),\n             ss['meta'])", "             ss['lexfile'],\n             ss['meta'])")]},
    {'name': 'no-detect-types', 'expect': 'C01-R8',
     'edits': [E(D, "            detect_types=sqlite3.PARSE_DECLTYPES,\n", "")]},
    {'name': 'boolean-converter-unregistered', 'expect': 'C01-R8',
     'edits': [E(D, "sqlite3.register_converter('boolean', _convert_boolean)\n", "")]},
    {'name': 'entries-meta-swapped-with-pos', 'expect': ['C01-R2', 'C01-R8'],
     'edits': [E(A, """             entry['lemma']['partOfSpeech'],
             entry['meta'])""", """             entry['meta'],
             entry['lemma']['partOfSpeech'])""")]},
    {'name': 'synset-rank-by-position-in-entries', 'expect': ['C01-R5', 'C01-R2'],
     'edits': [E(A, "             ssrank.get(sense['id'], DEFAULT_MEMBER_RANK),", "             i,")]},
    {'name': 'adjposition-sql-typo', 'expect': 'C01-R1',
     'edits': [E(Q, "    query = 'SELECT adjposition FROM adjpositions WHERE sense_rowid = ?'", "    query = 'SELECT adjposition FROM adjposition WHERE sense_rowid = ?'")]},
    # behaviour-preserving
    {'name': 'benign-rename-loop-var', 'expect': 'silent',
     'edits': [E(A, """            (entry['id'],
             lexid,
             entry['lemma']['partOfSpeech'],
             entry['meta'])
            for entry in batch""", """            (ent['id'],
             lexid,
             ent['lemma']['partOfSpeech'],
             ent['meta'])
            for ent in batch""")]},
    {'name': 'benign-local-alias', 'expect': 'silent',
     'edits': [E(A, """    data = [(lexid,
             sense['id'], lexidmap.get(sense['id'], lexid),
             count['value'],
             count['meta'])""", """    data = [(lexid,
             sense['id'], lexidmap.get(sense['id'], lexid),
             count['value'],
             count['meta'],)""")]},
    {'name': 'benign-named-params-style', 'expect': 'silent',
     'edits': [E(Q, """    query = 'SELECT modified FROM lexicons WHERE rowid = ?'
    return connect().execute(query, (rowid,)).fetchone()[0]""", """    query = 'SELECT modified FROM lexicons WHERE rowid = :rowid'
    return connect().execute(query, {'rowid': rowid}).fetchone()[0]""")]},
    {'name': 'forms-accumulator-outside-batch-loop', 'expect': 'C01-R10',
     'edits': [E(A, """    for batch in _batch(entries):
        forms: list[tuple[Optional[str], int, str, int,
                          str, Optional[str], Optional[str], int]] = []
""", """    forms: list[tuple[Optional[str], int, str, int,
                      str, Optional[str], Optional[str], int]] = []
    for batch in _batch(entries):
""")]},
    {'name': 'benign-tags-accumulator-cleared', 'expect': 'silent', 'property': 'C01',
     'edits': [E(A, """    for batch in _batch(entries):
        tags: list[tuple[str, int, Optional[str], int, str, str]] = []
""", """    tags: list[tuple[str, int, Optional[str], int, str, str]] = []
    for batch in _batch(entries):
        tags.clear()
""")]},
]
