def E(f, old, new, count=1):
    return {'file': f, 'old': old, 'new': new, 'count': count}

A = 'wn/_add.py'
D = 'wn/_db.py'
MUTANTS = [
    {'name': 'commit-per-lexicon', 'expect': 'C06-R1',
     'edits': [E(A, """            progress.set(status='')  # clear type string
            progress.flash(f"Added {spec} ({lexicon['label']})\\n")""",
                 """            progress.set(status='')  # clear type string
            conn.commit()
            progress.flash(f"Added {spec} ({lexicon['label']})\\n")""")]},
    {'name': 'commit-per-batch', 'expect': 'C06-R1',
     'edits': [E(A, """        cur.executemany(query, forms)
        progress.update(len(forms))""", """        cur.executemany(query, forms)
        cur.connection.commit()
        progress.update(len(forms))""")]},
    {'name': 'with-inside-loop', 'expect': 'C06-R1',
     'edits': [E(A, """    with connect() as conn:
        cur = conn.cursor()
        # these two settings increase the risk of database corruption
        # if the system crashes during a write, but they should also
        # make inserts much faster
        cur.execute('PRAGMA synchronous = OFF')
        cur.execute('PRAGMA journal_mode = MEMORY')

        for lexicon in resource['lexicons']:
            spec = format_lexicon_specifier(lexicon["id"], lexicon["version"])""",
                 """    for lexicon in resource['lexicons']:
      with connect() as conn:
            cur = conn.cursor()
            spec = format_lexicon_specifier(lexicon["id"], lexicon["version"])""")]},
    {'name': 'lookup-tables-own-transaction', 'expect': 'C06-R1',
     'edits': [E(A, """    cur.executemany('INSERT OR IGNORE INTO lexfiles VALUES (null,?)',
                    [(lf,) for lf in sorted(lexfiles)])""", """    with connect() as conn2:
        conn2.executemany('INSERT OR IGNORE INTO lexfiles VALUES (null,?)',
                          [(lf,) for lf in sorted(lexfiles)])""")]},
    {'name': 'swallow-lexicon-failure', 'expect': 'C06-R2',
     'edits': [E(A, """            _insert_synset_relations(synsets, lexid, lexidmap, cur, progress)
            _insert_sense_relations(lexicon, lexid, lexidmap, cur, progress)
""", """            _insert_synset_relations(synsets, lexid, lexidmap, cur, progress)
            try:
                _insert_sense_relations(lexicon, lexid, lexidmap, cur, progress)
            except wn.Error:
                log.warning('skipping sense relations')
""")]},
    {'name': 'autocommit-connection', 'expect': 'C06-R1',
     'edits': [E(D, """            detect_types=sqlite3.PARSE_DECLTYPES,
""", """            detect_types=sqlite3.PARSE_DECLTYPES,
            isolation_level=None,
""")]},
    {'name': 'executescript-in-extent', 'expect': 'C06-R1',
     'edits': [E(A, """        cur.execute('PRAGMA synchronous = OFF')
        cur.execute('PRAGMA journal_mode = MEMORY')
""", """        cur.executescript('PRAGMA synchronous = OFF; PRAGMA journal_mode = MEMORY;')
""")]},
    {'name': 'remove-without-with', 'expect': 'C06-R3',
     'edits': [E(A, """            with conn:

                for ext_id, ext_spec in reversed(extensions):""", """            if True:

                for ext_id, ext_spec in reversed(extensions):""")]},
    {'name': 'remove-two-transactions', 'expect': 'C06-R3',
     'edits': [E(A, """                spec = format_lexicon_specifier(id, version)
                extra = f' (and {len(extensions)} extension(s))' if extensions else ''
                progress.set(status=f'{spec}', count=0)
                conn.execute('DELETE from lexicons WHERE rowid = ?', (rowid,))
                progress.flash(f'Removed {spec}{extra}\\n')""", """            with conn:
                spec = format_lexicon_specifier(id, version)
                extra = f' (and {len(extensions)} extension(s))' if extensions else ''
                progress.set(status=f'{spec}', count=0)
                conn.execute('DELETE from lexicons WHERE rowid = ?', (rowid,))
                progress.flash(f'Removed {spec}{extra}\\n')""")]},
    {'name': 'remove-handler-not-reset', 'expect': 'C06-R3',
     'edits': [E(A, """        progress.close()
        conn.set_progress_handler(None, 0)""", """        progress.close()""")]},
    {'name': 'load-inside-transaction', 'expect': 'C06-R4',
     'edits': [E(A, """    resource = lmf.load(source, progress_handler)
    _add_lexical_resource(resource, skipmap, progress)""", """    _add_lexical_resource(lmf.load(source, progress_handler), skipmap, progress)""")], 'xfail': 'argument evaluated before the call: still before the block'},
    {'name': 'connect-returns-fresh', 'expect': 'C06-R5',
     'edits': [E(D, """        pool[dbpath] = conn
    return pool[dbpath]""", """        pool[dbpath] = conn
        return conn
    return pool[dbpath]""")], 'xfail': 'returning the just-pooled object is equivalent'},
    {'name': 'connect-not-pooled', 'expect': 'C06-R5',
     'edits': [E(D, """        pool[dbpath] = conn
    return pool[dbpath]""", """        return conn
    return pool[dbpath]""")]},
    {'name': 'benign-extract-helper', 'expect': 'silent',
     'edits': [E(A, """            _insert_synsets(synsets, lexid, cur, progress)
            _insert_entries(entries, lexid, cur, progress)""", """            _insert_synsets_and_entries(synsets, entries, lexid, cur, progress)"""),
               E(A, """def _precheck(""", """def _insert_synsets_and_entries(synsets, entries, lexid, cur, progress):
    _insert_synsets(synsets, lexid, cur, progress)
    _insert_entries(entries, lexid, cur, progress)


def _precheck(""")]},
    {'name': 'benign-try-reraise', 'expect': 'silent',
     'edits': [E(A, """            _insert_synset_relations(synsets, lexid, lexidmap, cur, progress)
            _insert_sense_relations(lexicon, lexid, lexidmap, cur, progress)
""", """            _insert_synset_relations(synsets, lexid, lexidmap, cur, progress)
            try:
                _insert_sense_relations(lexicon, lexid, lexidmap, cur, progress)
            except wn.Error:
                log.warning('bad sense relations')
                raise
""")]},
    {'name': 'memo-of-added-lexicons-outside-database', 'expect': 'C06-R6',
     'edits': [E(A, "def _update_lookup_tables(", "_SEEN_RELTYPES: set = set()\n\n\ndef _update_lookup_tables("),
               E(A, "    cur.executemany('INSERT OR IGNORE INTO relation_types VALUES (null,?)',\n                    [(rt,) for rt in sorted(reltypes)])",
                    "    cur.executemany('INSERT OR IGNORE INTO relation_types VALUES (null,?)',\n                    [(rt,) for rt in sorted(reltypes - _SEEN_RELTYPES)])\n    _SEEN_RELTYPES.update(reltypes)")]},
]
MUTANTS = [m for m in MUTANTS if 'xfail' not in m]
