def E(f, old, new, count=1):
    return {'file': f, 'old': old, 'new': new, 'count': count}

S = 'wn/similarity.py'
MUTANTS = [
    {'name': 'lch-no-pos-check', 'expect': 'C14-R1',
     'edits': [E(S, """    _check_if_pos_compatible(synset1.pos, synset2.pos)
    distance = len(synset1.shortest_path(synset2, simulate_root=simulate_root))""", """    distance = len(synset1.shortest_path(synset2, simulate_root=simulate_root))""")]},
    {'name': 'jcn-pos-check-late', 'expect': 'C14-R1',
     'edits': [E(S, """    _check_if_pos_compatible(synset1.pos, synset2.pos)
    ic1 = information_content(synset1, ic)
    ic2 = information_content(synset2, ic)
    lcs = _most_informative_lcs(synset1, synset2, ic)""", """    ic1 = information_content(synset1, ic)
    ic2 = information_content(synset2, ic)
    _check_if_pos_compatible(synset1.pos, synset2.pos)
    lcs = _most_informative_lcs(synset1, synset2, ic)""")]},
    {'name': 'pos-check-folds-one-side', 'expect': 'C14-R1',
     'edits': [E(S, "    _pos2 = ADJ if pos2 == ADJ_SAT else pos2", "    _pos2 = pos2")]},
    {'name': 'lcs-empty-returns-empty', 'expect': 'C14-R2',
     'edits': [E(S, """    if not lcs:
        raise wn.Error(f'no common hypernyms for {synset1!r} and {synset2!r}')
    return lcs""", """    return lcs""")]},
    {'name': 'path-catches-everything', 'expect': 'C14-R2',
     'edits': [E(S, "    except wn.Error:\n        distance = float('inf')", "    except Exception:\n        distance = float('inf')")]},
    {'name': 'wup-bypasses-lcs-check', 'expect': 'C14-R2',
     'edits': [E(S, "    lcs_list = _least_common_subsumers(synset1, synset2, simulate_root)", "    lcs_list = synset1.lowest_common_hypernyms(synset2, simulate_root=simulate_root)")]},
    {'name': 'wup-drops-simulate_root', 'expect': 'C14-R3',
     'edits': [E(S, "    i = len(synset1.shortest_path(lcs, simulate_root=simulate_root))", "    i = len(synset1.shortest_path(lcs))")]},
    {'name': 'lcs-helper-ignores-root', 'expect': 'C14-R3',
     'edits': [E(S, "    lcs = synset1.lowest_common_hypernyms(synset2, simulate_root=simulate_root)", "    lcs = synset1.lowest_common_hypernyms(synset2)")]},
    {'name': 'wup-k-without-plus-one', 'expect': 'C14-R5',
     'edits': [E(S, "    k = lcs.max_depth() + 1", "    k = lcs.max_depth()")]},
    {'name': 'path-distance-off-by-one', 'expect': 'C14-R5',
     'edits': [E(S, "    return 1 / (distance + 1)", "    return 1 / (distance + 2)")]},
    {'name': 'lin-asymmetric', 'expect': 'C14-R5',
     'edits': [E(S, "    return 2 * information_content(lcs, ic) / (ic1 + ic2)", "    return 2 * information_content(lcs, ic) / (ic1 + ic1)")]},
    {'name': 'wup-picks-from-set', 'expect': ['C14-R4', 'C16-R1'],
     'edits': [E(S, "    lcs = lcs_list[0]", "    lcs = list(set(lcs_list))[0]")]},
    {'name': 'benign-local-rename', 'expect': 'silent',
     'edits': [E(S, """    lcs_list = _least_common_subsumers(synset1, synset2, simulate_root)
    lcs = lcs_list[0]""", """    subsumers = _least_common_subsumers(synset1, synset2, simulate_root)
    lcs = subsumers[0]""")]},
]

MUTANTS += [
    {'name': 'benign-rename-in-path', 'expect': 'silent',
     'edits': [E(S, """        distance = float('inf')
    else:
        distance = len(path)
    return 1 / (distance + 1)""", """        dist = float('inf')
    else:
        dist = len(path)
    return 1 / (dist + 1)""")]},
    {'name': 'benign-rename-in-wup', 'expect': 'silent',
     'edits': [E(S, """    i = len(synset1.shortest_path(lcs, simulate_root=simulate_root))
    j = len(synset2.shortest_path(lcs, simulate_root=simulate_root))
    k = lcs.max_depth() + 1
    return (2*k) / (i + j + 2*k)""", """    d1 = len(synset1.shortest_path(lcs, simulate_root=simulate_root))
    d2 = len(synset2.shortest_path(lcs, simulate_root=simulate_root))
    depth = lcs.max_depth() + 1
    return (2*depth) / (d1 + d2 + 2*depth)""")]},
    {'name': 'benign-lin-local-for-ic-lcs', 'expect': 'silent', 'property': 'C14',
     'edits': [E(S, "    return 2 * information_content(lcs, ic) / (ic1 + ic2)", "    ic_lcs = information_content(lcs, ic)\n    return 2 * ic_lcs / (ic1 + ic2)")]},
    {'name': 'benign-jcn-inline-ic-lcs', 'expect': 'silent', 'property': 'C14',
     'edits': [E(S, """    lcs = _most_informative_lcs(synset1, synset2, ic)
    ic_lcs = information_content(lcs, ic)
    if ic1 == ic2 == ic_lcs == 0:""", """    ic_lcs = information_content(_most_informative_lcs(synset1, synset2, ic), ic)
    if ic1 == ic2 == ic_lcs == 0:""")]},
    {'name': 'lin-early-return-before-lcs', 'expect': 'C14-R6',
     'edits': [E(S, """    lcs = _most_informative_lcs(synset1, synset2, ic)
    ic1 = information_content(synset1, ic)
    ic2 = information_content(synset2, ic)
    if ic1 == 0 or ic2 == 0:
        return 0.0
    return 2 * information_content(lcs, ic) / (ic1 + ic2)""", """    ic1 = information_content(synset1, ic)
    ic2 = information_content(synset2, ic)
    if ic1 == 0 or ic2 == 0:
        return 0.0
    lcs = _most_informative_lcs(synset1, synset2, ic)
    return 2 * information_content(lcs, ic) / (ic1 + ic2)""")]},
    {'name': 'max-depth-memoised', 'expect': 'C14-R7',
     'edits': [E('wn/taxonomy.py', "def max_depth(synset: 'Synset', simulate_root: bool = False) -> int:", "@__import__('functools').lru_cache(maxsize=None)\ndef max_depth(synset: 'Synset', simulate_root: bool = False) -> int:")]},
]
