def E(f, old, new, count=1):
    return {'file': f, 'old': old, 'new': new, 'count': count}

C = 'wn/_core.py'
Q = 'wn/_queries.py'
A = 'wn/_add.py'
MUTANTS = [
    {'name': 'closure-no-visited-guard', 'expect': 'C11-R1',
     'edits': [E(C, """            if relatable not in visited:
                visited.add(relatable)
                yield relatable
                queue.extend(relatable.get_related(*args))""", """            visited.add(relatable)
            yield relatable
            queue.extend(relatable.get_related(*args))""")]},
    {'name': 'closure-extend-outside-guard', 'expect': 'C11-R1',
     'edits': [E(C, """                yield relatable
                queue.extend(relatable.get_related(*args))""", """                yield relatable
            queue.extend(relatable.get_related(*args))""")]},
    {'name': 'closure-visited-reset-in-loop', 'expect': 'C11-R1',
     'edits': [E(C, """        while queue:
            relatable = queue.pop(0)
            if relatable not in visited:""", """        while queue:
            relatable = queue.pop(0)
            visited = set(visited) if len(visited) < 1000 else set()
            if relatable not in visited:""")]},
    {'name': 'relation_paths-no-visited-filter', 'expect': 'C11-R1',
     'edits': [E(C, """                related = [target for target in path[-1].get_related(*args)
                           if target not in visited]""", """                related = [target for target in path[-1].get_related(*args)]""")]},
    {'name': 'relation_paths-visited-not-grown', 'expect': 'C11-R1',
     'edits': [E(C, "                        new_visited = visited | {synset}", "                        new_visited = visited")]},
    {'name': 'relation_paths-start-not-visited', 'expect': 'C11-R1',
     'edits': [E(C, "            ([target], {self, target})", "            ([target], {target})")]},
    {'name': 'revert-sense-synset-guard', 'expect': 'C11-R2',
     'edits': [E(Q, """    if relation_types and '*' not in relation_types:
        constraint = f'WHERE type IN ({_qs(relation_types)})'
        params.extend(relation_types)
    params.extend(lexicon_rowids)
    params.append(source_rowid)
    query = f'''
          WITH rt(rowid, type) AS
               (SELECT rowid, type FROM relation_types {constraint}),
               lexrowids(rowid) AS (VALUES {_vs(lexicon_rowids)})
        SELECT DISTINCT rel.type, rel.lexicon, rel.metadata,
                        rel.source_rowid, tgt.id, tgt.pos,""", """    if '*' not in relation_types:
        constraint = f'WHERE type IN ({_qs(relation_types)})'
        params.extend(relation_types)
    params.extend(lexicon_rowids)
    params.append(source_rowid)
    query = f'''
          WITH rt(rowid, type) AS
               (SELECT rowid, type FROM relation_types {constraint}),
               lexrowids(rowid) AS (VALUES {_vs(lexicon_rowids)})
        SELECT DISTINCT rel.type, rel.lexicon, rel.metadata,
                        rel.source_rowid, tgt.id, tgt.pos,""")]},
    {'name': 'sense-relations-no-distinct', 'expect': 'C11-R2',
     'edits': [E(Q, """        SELECT DISTINCT rel.type, rel.lexicon, rel.metadata,
                        s.id, e.id, ss.id, s.lexicon_rowid, s.rowid""", """        SELECT rel.type, rel.lexicon, rel.metadata,
                        s.id, e.id, ss.id, s.lexicon_rowid, s.rowid""")]},
    {'name': 'local-relations-ignore-types', 'expect': 'C11-R2',
     'edits': [E(C, "        iterable = get_synset_relations({self._id}, args, lexids)", "        iterable = get_synset_relations({self._id}, (), lexids)")]},
    {'name': 'relation-eq-ignores-subtype', 'expect': ['C11-R3', 'C10-R2'],
     'edits': [E(C, """            and self._lexicon == other._lexicon
            and self.subtype == other.subtype
        )""", """            and self._lexicon == other._lexicon
        )"""),
               E(C, "        datum = self.name, self.source_id, self.target_id, self._lexicon, self.subtype", "        datum = self.name, self.source_id, self.target_id, self._lexicon")]},
    {'name': 'relation-hash-ignores-lexicon-and-eq-too', 'expect': ['C11-R3'],
     'edits': [E(C, "        datum = self.name, self.source_id, self.target_id, self._lexicon, self.subtype", "        datum = self.name, self.source_id, self.target_id, self.subtype")]},
    {'name': 'split-unknown-target-dropped', 'expect': 'C11-R4',
     'edits': [E(A, """                else:
                    raise wn.Error(
                        f'relation target is not a known sense or synset: {target_id}'
                    )""", """                else:
                    log.warning('relation target is not a known sense or synset: %s', target_id)""")]},
    {'name': 'split-synset-first', 'expect': 'C11-R4',
     'edits': [E(A, """                if target_id in sense_ids:
                    s_s_rels.append((sense['id'], slid, tlid, relation))
                elif target_id in synset_ids:
                    s_ss_rels.append((sense['id'], slid, tlid, relation))""", """                if target_id in synset_ids:
                    s_s_rels.append((sense['id'], slid, tlid, relation))
                elif target_id in sense_ids:
                    s_ss_rels.append((sense['id'], slid, tlid, relation))""")]},
    {'name': 'get_related-via-set', 'expect': ['C11-R5', 'C16-R1'],
     'edits': [E(C, "        return unique_list(synset for _, synset in self._iter_relations(*args))", "        return list({synset for _, synset in self._iter_relations(*args)})")]},
    {'name': 'benign-closure-inverted-if', 'expect': 'silent',
     'edits': [E(C, """            if relatable not in visited:
                visited.add(relatable)
                yield relatable
                queue.extend(relatable.get_related(*args))""", """            if relatable in visited:
                continue
            visited.add(relatable)
            yield relatable
            queue.extend(relatable.get_related(*args))""")]},
    {'name': 'closure-visited-by-id', 'expect': ['C11-R6'],
     'edits': [E(C, """            if relatable not in visited:
                visited.add(relatable)""", """            if relatable.id not in visited:
                visited.add(relatable.id)""")]},
]
