def E(f, old, new, count=1):
    return {'file': f, 'old': old, 'new': new, 'count': count}

T = 'wn/taxonomy.py'
C = 'wn/_core.py'
X = 'wn/_export.py'
V = 'wn/validate.py'
I = 'wn/ic.py'
A = 'wn/_add.py'
M = 'wn/morphy.py'
U = 'wn/_util.py'
Q = 'wn/_queries.py'
L = 'wn/lmf.py'
P = 'wn/project.py'
MUTANTS = [
    {"name": "revert-sorted-common", "expect": "C16-R1",
     'edits': [E(T, "    for ss in _sorted_common(common, from_self):", "    for ss in common:")]},
    {'name': 'common_hypernyms-list-of-set', 'expect': 'C16-R1',
     'edits': [E(T, "    return _sorted_common(common, from_self)", "    return list(common)")]},
    {'name': 'common-keyless-sorted-set-loop', 'expect': 'C16-R7',
     'edits': [E(T, "    for ss in _sorted_common(common, from_self):", "    for ss in sorted(common):")]},
    {'name': 'common-keyless-sorted-set-return', 'expect': 'C16-R7',
     'edits': [E(T, "    return _sorted_common(common, from_self)", "    return sorted(common)")]},
    {'name': 'sorted-common-from-the-set', 'expect': 'C16-R7',
     'edits': [E(T, "    return sorted(unique_list(ss for ss in flatten(paths) if ss in common))", "    return sorted(common)")]},
    {'name': 'benign-sorted-common-list-comprehension', 'expect': 'silent',
     'edits': [E(T, "    return sorted(unique_list(ss for ss in flatten(paths) if ss in common))",
                 "    ordered = unique_list(flatten(paths))\n    return sorted([ss for ss in ordered if ss in common])")]},
    {'name': 'dump-writes-gzip-when-suffix-gz', 'expect': 'C16-R8',
     'edits': [E(L, "import re\nfrom pathlib import Path\n", "import re\nimport gzip\nfrom pathlib import Path\n"),
               E(L, "    with destination.open('wt', encoding='utf-8') as out:",
                 "    with (gzip.open(destination, 'wt', encoding='utf-8') if destination.suffix == '.gz'\n          else destination.open('wt', encoding='utf-8')) as out:")]},
    {'name': 'dump-stamps-the-time', 'expect': 'C16-R8',
     'edits': [E(L, "import re\nfrom pathlib import Path\n", "import re\nimport time\nfrom pathlib import Path\n"),
               E(L, "        print(doctype, file=out)\n", "        print(doctype, file=out)\n        print(f'<!-- written {time.strftime(\"%Y-%m-%d\")} -->', file=out)\n")]},
    {'name': 'benign-decompress-through-a-local-opener', 'expect': 'silent',
     'edits': [E(P, """            if gzipped:
                with gzip.open(source, 'rb') as gzip_src:
                    shutil.copyfileobj(gzip_src, tmp)  # type: ignore
            else:  # xzipped
                with lzma.open(source, 'rb') as lzma_src:
                    shutil.copyfileobj(lzma_src, tmp)  # type: ignore
""", """            opener = gzip.open if gzipped else lzma.open
            with opener(source, 'rb') as compressed_src:
                shutil.copyfileobj(compressed_src, tmp)  # type: ignore
""")]},
    {'name': 'revert-export-sense-ids', 'expect': 'C16-R1',
     'edits': [E(X, "    sense_ids = [s['id'] for s in entry.get('senses', [])]", "    sense_ids = {s['id'] for s in entry.get('senses', [])}")]},
    {'name': 'export-frames-senses-unsorted', 'expect': 'C16-R1',
     'edits': [E(X, "            'senses': sorted(sids),", "            'senses': list(sids),")]},
    {'name': 'revert-validate-regular', 'expect': 'C16-R1',
     'edits': [E(V, "            for src, typ, tgt in sorted(regular)\n", "            for src, typ, tgt in regular\n")]},
    {'name': 'revert-ic-initialize', 'expect': 'C16-R1',
     'edits': [E(I, "        for pos in sorted(IC_PARTS_OF_SPEECH)\n    }", "        for pos in IC_PARTS_OF_SPEECH\n    }")]},
    {'name': 'unique_list-via-set', 'expect': 'C16-R1',
     'edits': [E(U, "    targets = {item: True for item in items}\n    return list(targets)", "    return list(set(items))")]},
    {'name': 'find_helper-dedupe-via-set', 'expect': 'C16-R1',
     'edits': [E(C, """    unique_results: list[C] = []
    seen: set[C] = set()
    for result in results:
        if result not in seen:
            unique_results.append(result)
            seen.add(result)
    return unique_results""", """    return list(set(results))""")]},
    {'name': 'lookup-tables-unsorted', 'expect': 'C16-R1',
     'edits': [E(A, "                    [(rt,) for rt in sorted(reltypes)])", "                    [(rt,) for rt in reltypes])")]},
    {'name': 'ili-statuses-unsorted', 'expect': 'C16-R1',
     'edits': [E(A, "                        [(stat,) for stat in sorted(statuses)])", "                        [(stat,) for stat in statuses])")]},
    {'name': 'get_lexicon_ids-first-element', 'expect': 'C16-R1',
     'edits': [E(C, """        lexids = self._get_lexicon_ids()
        return next(
            (text for text, _, _, _ in get_definitions(self._id, lexids)),
            None
        )""", """        lexids = self._get_lexicon_ids()
        return next(
            (text for text, _, _, _ in get_definitions(self._id, lexids[:1])),
            None
        )""")], 'xfail': 'slice of a seed-ordered tuple passed on: selects elements by position'},
    {'name': 'relmap-via-sets', 'expect': 'C16-R1',
     'edits': [E(C, """        relmap: dict[str, dict[Synset, bool]] = {}
        for relation, synset in self._iter_relations(*args):
            relmap.setdefault(relation.name, {})[synset] = True
        # now convert inner dicts to lists
        return {relname: list(ss_dict) for relname, ss_dict in relmap.items()}""", """        relmap: dict[str, set[Synset]] = {}
        for relation, synset in self._iter_relations(*args):
            relmap.setdefault(relation.name, set()).add(synset)
        # now convert inner sets to lists
        return {relname: list(ss_set) for relname, ss_set in relmap.items()}""")]},
    {'name': 'morphy-returns-lists', 'expect': 'C16-R1',
     'edits': [E(M, "        return result\n\n    def _morphstr", "        return {p: list(fs) for p, fs in result.items()}\n\n    def _morphstr")]},
    {'name': 'query-cache', 'expect': 'C16-R2',
     'edits': [E(Q, """def get_modified(rowid: int) -> bool:
    query = 'SELECT modified FROM lexicons WHERE rowid = ?'
    return connect().execute(query, (rowid,)).fetchone()[0]""", """_modified_cache: dict = {}


def get_modified(rowid: int) -> bool:
    query = 'SELECT modified FROM lexicons WHERE rowid = ?'
    if rowid not in _modified_cache:
        _modified_cache[rowid] = connect().execute(query, (rowid,)).fetchone()[0]
    return _modified_cache[rowid]""")]},
    # behaviour-preserving
    {'name': 'benign-set-membership', 'expect': 'silent',
     'edits': [E(C, "    unique_results: list[C] = []\n    seen: set[C] = set()", "    unique_results: list[C] = []\n    seen: set[C] = set(results[:0])")]},
    {'name': 'benign-sorted-set-iteration', 'expect': 'silent',
     'edits': [E(V, "    selectset = set(select)\n    return [(code, func, func.__doc__ or '')\n            for code, func in _codes.items()",
                 "    selectset = set(select)\n    _ = [s for s in sorted(selectset)]\n    return [(code, func, func.__doc__ or '')\n            for code, func in _codes.items()")]},
    {'name': 'benign-len-of-set', 'expect': 'silent',
     'edits': [E(T, "    if not common:\n        return {}", "    if len(common) == 0 or not any(True for _ in common):\n        return {}")]},
]
MUTANTS = [m for m in MUTANTS if 'xfail' not in m]
