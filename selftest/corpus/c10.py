def E(f, old, new, count=1):
    return {'file': f, 'old': old, 'new': new, 'count': count}

C = 'wn/_core.py'
Q = 'wn/_queries.py'
MUTANTS = [
    {'name': 'sense-synset-via-wordnet', 'expect': ['C10-R1', 'C04-R3'],
     'edits': [E(C, """        lexids = self._get_lexicon_ids()
        iterable = find_synsets(id=self._synset_id, lexicon_rowids=lexids)
        try:
            return Synset(*next(iterable), _wordnet=self._wordnet)
        except StopIteration:
            raise wn.Error(f'no such synset: {self._synset_id}') from None""", "        return self._wordnet.synset(id=self._synset_id)")]},
    {'name': 'word-eq-by-id-string-no-hash', 'expect': 'C10-R2',
     'edits': [E(C, """    def __repr__(self) -> str:
        return f'Word({self.id!r})'
""", """    def __repr__(self) -> str:
        return f'Word({self.id!r})'

    def __eq__(self, other):
        return isinstance(other, Word) and self.id == other.id
""")]},
    {'name': 'entity-hash-includes-unrelated-field', 'expect': 'C10-R2',
     'edits': [E(C, """    def __repr__(self) -> str:
        return f'Sense({self.id!r})'
""", """    def __repr__(self) -> str:
        return f'Sense({self.id!r})'

    def __hash__(self):
        return hash((self._ENTITY_TYPE, self._id, self._entry_id))
""")]},
    {'name': 'form-hash-includes-script-eq-does-not', 'expect': 'C10-R2',
     'edits': [E(C, """    def __eq__(self, other):
        if isinstance(other, Form) and self.script != other.script:
            return False
        return str.__eq__(self, other)

    def __hash__(self):
        return str.__hash__(self)""", """    def __eq__(self, other):
        return str.__eq__(self, other)

    def __hash__(self):
        return hash((str.__hash__(self), self.script))""")]},
    {'name': 'entity-eq-ignores-type', 'expect': 'C10-R2',
     'edits': [E(C, """        return (self._ENTITY_TYPE == other._ENTITY_TYPE
                and self._id == other._id)""", """        return self._id == other._id""")]},
    {'name': 'sense-and-synset-share-entity-type', 'expect': 'C10-R2',
     'edits': [E(C, "    _ENTITY_TYPE = _EntityType.SENSES", "    _ENTITY_TYPE = _EntityType.SYNSETS")]},
    {'name': 'translate-without-ili-guard', 'expect': 'C10-R3',
     'edits': [E(C, """        ili = self._ili
        if not ili:
            return []
        return synsets(ili=ili, lang=lang, lexicon=lexicon)""", """        ili = self._ili
        return synsets(ili=ili, lang=lang, lexicon=lexicon)""")]},
    {'name': 'synset-senses-by-entry', 'expect': 'C10-R4',
     'edits': [E(Q, "    yield from _get_senses(rowid, 'synset', lexicon_rowids)", "    yield from _get_senses(rowid, 'entry', lexicon_rowids)")]},
    {'name': 'word-senses-unscoped-wordnet', 'expect': ['C10-R4', 'C04-R2'],
     'edits': [E(C, """        lexids = self._get_lexicon_ids()
        iterable = get_entry_senses(self._id, lexids)""", """        lexids = self._wordnet._lexicon_ids
        iterable = get_entry_senses(self._id, lexids)""")]},
    {'name': 'benign-hash-subset', 'expect': 'silent',
     'edits': [E(C, "        datum = self.name, self.source_id, self.target_id, self._lexicon, self.subtype\n        return hash(datum)", "        datum = self.name, self.source_id, self.target_id\n        return hash(datum)")], 'property': 'C10'},
    {'name': 'synset-words-sorted', 'expect': 'C10-R6',
     'edits': [E(C, "        return [sense.word() for sense in self.senses()]", "        return sorted((sense.word() for sense in self.senses()), key=lambda w: w.id)")]},
    {'name': 'word-synsets-deduplicated', 'expect': 'C10-R6',
     'edits': [E(C, "        return [sense.synset() for sense in self.senses()]", "        return unique_list(sense.synset() for sense in self.senses())")]},
    {'name': 'lemmas-filtered', 'expect': 'C10-R6',
     'edits': [E(C, "        return [w.lemma() for w in self.words()]", "        return [w.lemma() for w in self.words() if w.lemma()]")]},
    {'name': 'benign-image-loop-var-renamed', 'expect': 'silent', 'property': 'C10',
     'edits': [E(C, "        return [sense.word() for sense in self.senses()]", "        return [s.word() for s in self.senses()]")]},
]
