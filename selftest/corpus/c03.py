def E(f, old, new, count=1):
    return {'file': f, 'old': old, 'new': new, 'count': count}

X = 'wn/_export.py'
MUTANTS = [
    {'name': 'subcat-sorts-idless-frames', 'expect': 'C03-R13',
     'edits': [E(X, "            sense['subcat'] = sorted(sbid for sbid, _ in sbmap[id] if sbid)", "            sense['subcat'] = sorted(sbid for sbid, _ in sbmap[id])")]},
    {'name': 'subcat-joins-idless-frames', 'expect': 'C03-R13',
     'edits': [E(X, "            sense['subcat'] = sorted(sbid for sbid, _ in sbmap[id] if sbid)", "            sense['subcat'] = ' '.join(sbid for sbid, _ in sbmap[id]).split()")]},
    {'name': 'benign-subcat-filter-is-not-none', 'expect': 'silent',
     'edits': [E(X, "            sense['subcat'] = sorted(sbid for sbid, _ in sbmap[id] if sbid)", "            sense['subcat'] = sorted(sbid for sbid, _ in sbmap[id] if sbid is not None and sbid)")]},
    {'name': 'revert-sbmap-guard', 'expect': 'C03-R2',
     'edits': [E(X, """    for sbid, frame, sids in find_syntactic_behaviours(lexicon_rowids=lexids):
        for sid in sids:
            sbmap.setdefault(sid, []).append((sbid, frame))
""", """    if version < (1, 1):
        for sbid, frame, sids in find_syntactic_behaviours(lexicon_rowids=lexids):
            for sid in sids:
                sbmap.setdefault(sid, []).append((sbid, frame))
""")]},
    {'name': 'sbmap-only-for-1.1-breaks-1.0-frames', 'expect': 'C03-R2',
     'edits': [E(X, """    for sbid, frame, sids in find_syntactic_behaviours(lexicon_rowids=lexids):
        for sid in sids:
            sbmap.setdefault(sid, []).append((sbid, frame))
""", """    if version >= (1, 1):
        for sbid, frame, sids in find_syntactic_behaviours(lexicon_rowids=lexids):
            for sid in sids:
                sbmap.setdefault(sid, []).append((sbid, frame))
""")]},
    {'name': 'definition-language-dropped', 'expect': 'C03-R1',
     'edits': [E(X, """        {'text': text,
         'language': language,
         'sourceSense': sense_id,""", """        {'text': text,
         'sourceSense': sense_id,""")]},
    {'name': 'count-meta-dropped', 'expect': 'C03-R1',
     'edits': [E(X, """        {'value': val,
         'meta': _export_metadata(id, 'counts')}""", """        {'value': val, 'meta': None}""")], 'xfail': 'key still produced (value-level)'},
    {'name': 'sense-adjposition-dropped', 'expect': 'C03-R1',
     'edits': [E(X, "            'adjposition': get_adjposition(rowid) or '',\n", "")]},
    {'name': 'members-only-in-1.0', 'expect': 'C03-R1',
     'edits': [E(X, "        if version >= (1, 1):\n            ss['members'] = [row[0] for row in get_synset_members(rowid, lexids)]", "        if version < (1, 1):\n            ss['members'] = [row[0] for row in get_synset_members(rowid, lexids)]")]},
    {'name': 'requires-url-dropped', 'expect': 'C03-R1',
     'edits': [E(X, "        {'id': id, 'version': version, 'url': url}\n        for id, version, url, _ in get_lexicon_dependencies(lexid)", "        {'id': id, 'version': version}\n        for id, version, url, _ in get_lexicon_dependencies(lexid)")]},
    {'name': 'example-meta-wrong-rowid', 'expect': 'C03-R3',
     'edits': [E(X, """         'meta': _export_metadata(rowid, f'{table[:-1]}_examples')}
        for text, language, rowid
        in get_examples(rowid, table, lexids)""", """         'meta': _export_metadata(rowid, f'{table[:-1]}_examples')}
        for text, language, _
        in get_examples(rowid, table, lexids)""")]},
    {'name': 'definition-meta-from-synsets-table', 'expect': 'C03-R3',
     'edits': [E(X, "         'meta': _export_metadata(rowid, 'definitions')}", "         'meta': _export_metadata(rowid, 'synsets')}")]},
    {'name': 'count-meta-value-as-rowid', 'expect': 'C03-R3',
     'edits': [E(X, "         'meta': _export_metadata(id, 'counts')}", "         'meta': _export_metadata(val, 'counts')}")]},
    {'name': 'senses-unscoped', 'expect': ['C03-R4', 'C04-R2'],
     'edits': [E(X, "    for id, _, synset, _, rowid in get_entry_senses(entry_rowid, lexids):", "    for id, _, synset, _, rowid in get_entry_senses(entry_rowid, ()):")]},
    {'name': 'precheck-dropped', 'expect': 'C03-R5',
     'edits': [E(X, "    _precheck(lexicons)\n    assert version", "    assert version")]},
    {'name': 'benign-rename-sbmap', 'expect': 'silent',
     'edits': [E(X, """    sbmap: _SBMap = {}
    for sbid, frame, sids in find_syntactic_behaviours(lexicon_rowids=lexids):
        for sid in sids:
            sbmap.setdefault(sid, []).append((sbid, frame))
""", """    sbmap: _SBMap = {}
    for sb_id, frame, sids in find_syntactic_behaviours(lexicon_rowids=lexids):
        for sid in sids:
            sbmap.setdefault(sid, []).append((sb_id, frame))
""")]},
    {'name': 'lexfile-only-for-nouns-and-verbs', 'expect': 'C03-R8',
     'edits': [E(X, "get_lexfile(rowid) or ''", "(get_lexfile(rowid) or '') if pos in ('n', 'v') else ''")]},
    {'name': 'counts-only-for-non-adjectives', 'expect': 'C03-R8',
     'edits': [E(X, "            'counts': _export_counts(rowid, lexids),", "            'counts': _export_counts(rowid, lexids) if not id.endswith('-s') else [],")]},
]
MUTANTS = [m for m in MUTANTS if 'xfail' not in m]
