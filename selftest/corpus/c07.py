def E(f, old, new, count=1):
    return {'file': f, 'old': old, 'new': new, 'count': count}

A = 'wn/_add.py'
V = 'wn/validate.py'
X = 'wn/_export.py'
P = 'wn/project.py'
MUTANTS = [
    {'name': 'revert-frames-alias', 'expect': 'C07-R3',
     'edits': [E(A, "            'senses': list(frame.get('senses', [])),", "            'senses': frame.get('senses', []),")]},
    {'name': 'importer-normalises-dependency-in-place', 'expect': 'C07-R3',
     'edits': [E(A, """        param_dict = dict(dep)
        param_dict.setdefault('url', None)""", """        param_dict = dep
        param_dict.setdefault('url', None)""")]},
    {'name': 'importer-sets-default-in-place', 'expect': 'C07-R3',
     'edits': [E(A, """    for batch in _batch(_local_synsets(synsets)):

        # first add presupposed ILIs""", """    for batch in _batch(_local_synsets(synsets)):
        for ss in batch:
            ss.setdefault('lexicalized', True)

        # first add presupposed ILIs""")]},
    {'name': 'importer-sorts-members-in-place', 'expect': 'C07-R3',
     'edits': [E(A, """    ssrank = {s: i
              for ss in _local_synsets(synsets)
              for i, s in enumerate(ss.get('members', []))}""", """    for ss in _local_synsets(synsets):
        ss.get('members', []).sort()
    ssrank = {s: i
              for ss in _local_synsets(synsets)
              for i, s in enumerate(ss.get('members', []))}""")]},
    {'name': 'validate-pops-meta', 'expect': 'C07-R3',
     'edits': [E(V, "    return (r.get('meta') or {}).get('type')", "    meta = r.get('meta') or {}\n    return meta.pop('type', None)")]},
    {'name': 'entry-points-diverge-no-precheck', 'expect': 'C07-R1',
     'edits': [E(A, """        skipmap = _precheck(resource["lexicons"], progress)
        if all(skipmap.values()):
            return  # nothing to do

        _add_lexical_resource(resource, skipmap, progress)""", """        skipmap = {format_lexicon_specifier(lex['id'], lex['version']): False for lex in resource["lexicons"]}
        _add_lexical_resource(resource, skipmap, progress)""")]},
    {'name': 'add-progress-not-closed', 'expect': 'C07-R1',
     'edits': [E(A, """            else:
                raise wn.Error(f'unknown package type: {package.type}')
    finally:
        progress.close()""", """            else:
                raise wn.Error(f'unknown package type: {package.type}')
    except Exception:
        raise""")]},
    {'name': 'skip-test-negated', 'expect': ['C07-R2', 'C05-R6'],
     'edits': [E(A, "            if skipmap[spec]:\n                continue", "            if not skipmap[spec]:\n                continue")]},
    {'name': 'decompress-unlinks-source', 'expect': 'C07-R4',
     'edits': [E(P, "        finally:\n            path.unlink()", "        finally:\n            source.unlink()")]},
    {'name': 'scan-opens-readwrite', 'expect': 'C07-R4',
     'edits': [E('wn/lmf.py', "    with open(source, 'rb') as fh:\n        # tags inside of comments", "    with open(source, 'r+b') as fh:\n        # tags inside of comments")]},
    {'name': 'tar-extracted-in-place', 'expect': 'C07-R4',
     'edits': [E(P, """            with tempfile.TemporaryDirectory() as tmpdir:
                tar.extractall(path=tmpdir)
                contents = list(Path(tmpdir).iterdir())""", """            tmpdir = tempfile.mkdtemp()
            if True:
                tar.extractall(path=tmpdir)
                contents = list(Path(tmpdir).iterdir())""")]},
    {'name': 'benign-copy-then-mutate', 'expect': 'silent',
     'edits': [E(A, """        param_dict = dict(dep)
        param_dict.setdefault('url', None)""", """        param_dict = {**dep}
        param_dict.setdefault('url', None)""")]},
    {'name': 'benign-local-list-of-ids', 'expect': 'silent',
     'edits': [E(A, "        all_senses = [s['id'] for s in _senses(entry)]", "        all_senses = [s['id'] for s in _senses(entry)]\n        all_senses.sort()")]},
    {'name': 'single-file-route-lmf-only', 'expect': 'C07-R6',
     'edits': [E(P, "            if lmf.is_lmf(decompressed) or _ili.is_ili(decompressed):", "            if lmf.is_lmf(decompressed):")]},
    {'name': 'collection-skips-hidden-directories', 'expect': 'C07-R6',
     'edits': [E(P, "                if is_package_directory(path)]", "                if is_package_directory(path) and not path.name.startswith('.')]")]},
    {'name': 'package-files-by-suffix', 'expect': 'C07-R6',
     'edits': [E(P, "            typ = _resource_file_type(p)\n", "            if p.suffix not in ('.xml', '.tsv'):\n                continue\n            typ = _resource_file_type(p)\n")]},
]
