def E(f, old, new, count=1):
    return {'file': f, 'old': old, 'new': new, 'count': count}

L = 'wn/lmf.py'
A = 'wn/_add.py'
MUTANTS = [
    {'name': 'is_lmf-own-header-check', 'expect': 'C20-R1',
     'edits': [E(L, """    with source.open(mode='rb') as fh:
        try:
            _read_header(fh)
        except LMFError:
            return False
    return True""", """    with source.open(mode='rb') as fh:
        fh.readline()
        return b'LexicalResource' in fh.readline()""")]},
    {'name': 'doctype-1.3-missing', 'expect': ['C20-R1', 'C02-R1'],
     'edits': [E(L, "    '1.3': 'http://globalwordnet.github.io/schemas/WN-LMF-1.3.dtd',\n}", "}")]},
    {'name': 'header-doctype-not-checked', 'expect': 'C20-R1',
     'edits': [E(L, """    if doctype_decoded not in _DOCTYPES:
        raise LMFError('invalid or missing DOCTYPE declaration')

    return _DOCTYPES[doctype_decoded]""", """    return _DOCTYPES.get(doctype_decoded, '1.0')""")]},
    {'name': 'repeated-child-overwrites', 'expect': 'C20-R2',
     'edits': [E(L, "        elif key is None or key in parent:", "        elif key is None:")]},
    {'name': 'unknown-element-ignored', 'expect': 'C20-R2',
     'edits': [E(L, """        elif key is None or key in parent:
            raise _unexpected(name, p)
        else:
            parent[key] = attrs""", """        elif key is None:
            pass
        elif key in parent:
            raise _unexpected(name, p)
        else:
            parent[key] = attrs""")]},
    {'name': 'list-elems-not-versioned', 'expect': 'C20-R2',
     'edits': [E(L, "    LIST_ELEMS = _LIST_ELEMS & set(ELEMS)", "    LIST_ELEMS = _LIST_ELEMS")]},
    {'name': 'expat-error-leaks', 'expect': 'C20-R2',
     'edits': [E(L, """        try:
            parser.ParseFile(fh)
        except xml.parsers.expat.ExpatError as exc:
            raise LMFError('invalid or ill-formed XML') from exc""", """        parser.ParseFile(fh)""")]},
    {'name': 'sense-synset-not-asserted', 'expect': 'C20-R3',
     'edits': [E(L, "            assert 'synset' in elem\n", "")]},
    {'name': 'relation-target-not-asserted', 'expect': 'C20-R3',
     'edits': [E(L, """        for rel in elem.get('relations', []):
            assert 'target' in rel
            assert 'relType' in rel
            rel.setdefault('meta')
        for ex in elem.get('examples', []):
            ex.setdefault('text', '')
            ex.setdefault('meta')
        for cnt in""", """        for rel in elem.get('relations', []):
            assert 'relType' in rel
            rel.setdefault('meta')
        for ex in elem.get('examples', []):
            ex.setdefault('text', '')
            ex.setdefault('meta')
        for cnt in""")]},
    {'name': 'lexicon-email-not-required', 'expect': 'C20-R3',
     'edits': [E(L, "    for attr in 'id', 'version', 'label', 'language', 'email', 'license':", "    for attr in 'id', 'version', 'label', 'language', 'license':")]},
    {'name': 'benign-count-meta-default-dropped', 'expect': 'silent',
     'edits': [E(L, "            cnt['value'] = int(cnt.pop('text'))\n            cnt.setdefault('meta')", "            cnt['value'] = int(cnt.pop('text'))")]},
    {'name': 'revert-scan-attr-regex', 'expect': 'C20-R4',
     'edits': [E(L, """    attr_re = re.compile(
        b'''\\\\b(id|version|label)\\\\s*=\\\\s*(["'])(.*?)\\\\2''', flags=re.M | re.S
    )""", """    attr_re = re.compile(b'''\\\\b(id|version|label)=(["'])([^"']+)["']''', flags=re.M)""")]},
    {'name': 'scan-no-unescape', 'expect': 'C20-R4',
     'edits': [E(L, "        return unescape(re.sub(r'[\\t\\r\\n]', ' ', raw.decode('utf-8')))", "        return re.sub(r'[\\t\\r\\n]', ' ', raw.decode('utf-8'))")]},
    {'name': 'scan-tag-regex-naive', 'expect': 'C20-R4',
     'edits': [E(L, """        b'''<(Lexicon|LexiconExtension|Extends)\\\\b((?:[^>"']|"[^"]*"|'[^']*')*)>''',""", """        b'''<(Lexicon|LexiconExtension|Extends)\\\\b([^>]*)>''',""")]},
    {'name': 'scan-ignores-extensions', 'expect': 'C20-R4',
     'edits': [E(L, """        b'''<(Lexicon|LexiconExtension|Extends)\\\\b((?:[^>"']|"[^"]*"|'[^']*')*)>''',""", """        b'''<(Lexicon|Extends)\\\\b((?:[^>"']|"[^"]*"|'[^']*')*)>''',""")]},
    {'name': 'load-before-precheck', 'expect': ['C20-R5', 'C06-R4'],
     'edits': [E(A, """    skipmap = _precheck(infos, progress)
    if all(skipmap.values()):
        return  # nothing to do

    # all clear, try to add them
    progress.flash(f'Reading {source!s}')
    resource = lmf.load(source, progress_handler)
    _add_lexical_resource(resource, skipmap, progress)""", """    progress.flash(f'Reading {source!s}')
    resource = lmf.load(source, progress_handler)
    skipmap = _precheck(infos, progress)
    if all(skipmap.values()):
        return  # nothing to do
    _add_lexical_resource(resource, skipmap, progress)""")]},
    {'name': 'benign-scan-regex-flags', 'expect': 'silent',
     'edits': [E(L, "flags=re.M | re.S\n    )", "flags=re.S | re.M\n    )")]},
]
