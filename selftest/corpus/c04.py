"""C04 variants. E(file, old, new) = one text substitution (must match exactly once)."""
def E(f, old, new, count=1):
    return {'file': f, 'old': old, 'new': new, 'count': count}

Q = 'wn/_queries.py'
C = 'wn/_core.py'
MUTANTS = [
    {'name': 'drop-target-filter-synset-relations', 'expect': 'C04-R1',
     'edits': [E(Q, """          JOIN synsets AS tgt
            ON tgt.rowid = rel.target_rowid
           AND tgt.lexicon_rowid IN lexrowids
    '''
    result_rows""", """          JOIN synsets AS tgt
            ON tgt.rowid = rel.target_rowid
    '''
    result_rows""")]},
    {'name': 'drop-relation-filter-sense-relations', 'expect': 'C04-R1',
     'edits': [E(Q, """                 WHERE source_rowid = ?
                   AND lexicon_rowid IN lexrowids
               ) AS rel
          JOIN senses AS s""", """                 WHERE source_rowid = ?
               ) AS rel
          JOIN senses AS s""")]},
    {'name': 'filter-becomes-OR', 'expect': 'C04-R1',
     'edits': [E(Q, """         WHERE d.synset_rowid = ?
           AND d.lexicon_rowid IN""", """         WHERE d.synset_rowid = ?
            OR d.lexicon_rowid IN""")]},
    {'name': 'drop-counts-filter', 'expect': ['C04-R1', 'C01-R1'],
     'edits': [E(Q, """         WHERE sense_rowid = ?
           AND lexicon_rowid IN ({_qs(lexicon_rowids)})
    '''
    rows: list[_Count] = conn.execute(
        query, (sense_rowid, *lexicon_rowids)
    ).fetchall()""", """         WHERE sense_rowid = ?
    '''
    rows: list[_Count] = conn.execute(
        query, (sense_rowid,)
    ).fetchall()""")]},
    {'name': 'drop-entries-filter-find_entries', 'expect': 'C04-R1',
     'edits': [E(Q, """    if lexicon_rowids:
        conditions.append(f'e.lexicon_rowid IN ({_qs(lexicon_rowids)})')
        params.extend(lexicon_rowids)
""", "")]},
    {'name': 'filter-on-wrong-alias-get_senses', 'expect': 'C04-R1',
     'edits': [E(Q, """           AND s.lexicon_rowid IN ({_qs(lexicon_rowids)})
         ORDER BY""", """           AND e.lexicon_rowid IN ({_qs(lexicon_rowids)})
         ORDER BY""")]},
    {'name': 'drop-forms-join-filter', 'expect': 'C04-R1',
     'edits': [E(Q, "JOIN forms AS f ON f.entry_rowid = e.rowid {f_in_lex}", "JOIN forms AS f ON f.entry_rowid = e.rowid"),
               E(Q, "    params = [*forms, *lexicon_rowids, *params]", "    params = [*forms, *params]")]},
    {'name': 'element-uses-wordnet-scope', 'expect': 'C04-R2',
     'edits': [E(C, """        lexids = self._get_lexicon_ids()
        exs = get_examples(self._id, 'synsets', lexids)""", """        lexids = self._wordnet._lexicon_ids
        exs = get_examples(self._id, 'synsets', lexids)""")]},
    {'name': 'backmap-with-expand-ids', 'expect': ['C04-R2', 'C12-R1'],
     'edits': [E(C, "local_ss_rows = list(get_synsets_for_ilis([ili], lexicon_rowids=lexids))",
                 "local_ss_rows = list(get_synsets_for_ilis([ili], lexicon_rowids=expids))")]},
    {'name': 'wordnet-synset-unscoped', 'expect': 'C04-R2',
     'edits': [E(C, "iterable = find_synsets(id=id, lexicon_rowids=self._lexicon_ids)", "iterable = find_synsets(id=id)")]},
    {'name': 'sense-word-via-wordnet', 'expect': 'C04-R3',
     'edits': [E(C, """        lexids = self._get_lexicon_ids()
        iterable = find_entries(id=self._entry_id, lexicon_rowids=lexids)
        try:
            return Word(*next(iterable), self._wordnet)
        except StopIteration:
            raise wn.Error(f'no such lexical entry: {self._entry_id}') from None""",
                 "        return self._wordnet.word(id=self._entry_id)")]},
    {'name': 'default-mode-drops-extensions', 'expect': 'C04-R4',
     'edits': [E(C, """                | set(get_lexicon_extensions(self._lexid))
""", "")]},
    {'name': 'default-mode-depth-1', 'expect': 'C04-R4',
     'edits': [E(C, "| set(get_lexicon_extension_bases(self._lexid))", "| set(get_lexicon_extension_bases(self._lexid, depth=1))")]},
    {'name': 'find_helper-expanded-scope', 'expect': 'C04-R2',
     'edits': [E(C, "'lexicon_rowids': w._lexicon_ids,", "'lexicon_rowids': w._lexicon_ids + w._expanded_ids,")]},
    # behaviour-preserving
    {'name': 'benign-rename-local', 'expect': 'silent',
     'edits': [E(C, """        lexids = self._get_lexicon_ids()
        exs = get_examples(self._id, 'synsets', lexids)""", """        scope = self._get_lexicon_ids()
        exs = get_examples(self._id, 'synsets', scope)""")]},
    {'name': 'benign-inline-scope', 'expect': 'silent',
     'edits': [E(C, """        lexids = self._get_lexicon_ids()
        return get_syntactic_behaviours(self._id, lexids)""", """        return get_syntactic_behaviours(self._id, self._get_lexicon_ids())""")]},
    {'name': 'benign-sql-whitespace', 'expect': 'silent',
     'edits': [E(Q, """         WHERE d.synset_rowid = ?
           AND d.lexicon_rowid IN ({_qs(lexicon_rowids)})""", """         WHERE d.synset_rowid = ?   AND   d.lexicon_rowid   IN   ( {_qs(lexicon_rowids)} )""")]},
    {'name': 'benign-in-list-instead-of-cte', 'expect': 'silent',
     'edits': [E(Q, """            ON s.rowid = rel.target_rowid
           AND s.lexicon_rowid IN lexrowids""", """            ON s.rowid = rel.target_rowid
           AND s.lexicon_rowid IN (SELECT rowid FROM lexrowids)""")], 'xfail': 'filter through a sub-select on the CTE is not recognised'},
    {'name': 'sense-relation-target-without-wordnet', 'expect': 'C04-R7',
     'edits': [E(C, "                sid, eid, ssid, lexid, rowid, _wordnet=self._wordnet\n", "                sid, eid, ssid, lexid, rowid\n")]},
    {'name': 'word-senses-bound-to-fresh-wordnet', 'expect': 'C04-R7',
     'edits': [E(C, "        return [Sense(*sense_data, _wordnet=self._wordnet) for sense_data in iterable]", "        return [Sense(*sense_data, _wordnet=Wordnet()) for sense_data in iterable]", count=2)]},
    {'name': 'benign-local-synset-positional-wordnet', 'expect': 'silent', 'property': 'C04',
     'edits': [E(C, "Synset(*row, _wordnet=_wn)", "Synset(*row, _wordnet=self._wordnet)")]},
]
MUTANTS = [m for m in MUTANTS if 'xfail' not in m]
