def E(f, old, new, count=1):
    return {'file': f, 'old': old, 'new': new, 'count': count}

I = 'wn/ic.py'
MUTANTS = [
    {'name': 'revert-per-path-seen', 'expect': 'C15-R1',
     'edits': [E(I, """            agenda: list[Synset] = [synset]
            seen: set[Synset] = set()
            while agenda:
                ss = agenda.pop()

                # add the weight to each ancestor only once, even if
                # several hypernym paths lead to it (this also avoids cycles)
                if ss in seen:
                    continue
                seen.add(ss)

                # synsets inferred through an expand lexicon are not
                # part of the wordnet: they have no weight of their own,
                # but the walk continues through them
                if ss.id in freq[pos]:
                    freq[pos][ss.id] += weight

                if ss not in hypernym_cache:
                    hypernym_cache[ss] = ss.hypernyms()
                agenda.extend(hypernym_cache[ss])""", """            agenda: list[tuple[Synset, set[Synset]]] = [(synset, set())]
            while agenda:
                ss, seen = agenda.pop()

                # avoid cycles
                if ss in seen:
                    continue

                freq[pos][ss.id] += weight

                if ss not in hypernym_cache:
                    hypernym_cache[ss] = ss.hypernyms()
                agenda.extend((hyp, seen | {ss}) for hyp in hypernym_cache[ss])""")]},
    {'name': 'accumulate-before-check', 'expect': 'C15-R1',
     'edits': [E(I, """                if ss in seen:
                    continue
                seen.add(ss)

                # synsets inferred through an expand lexicon are not
                # part of the wordnet: they have no weight of their own,
                # but the walk continues through them
                if ss.id in freq[pos]:
                    freq[pos][ss.id] += weight
""", """                freq[pos][ss.id] += weight
                if ss in seen:
                    continue
                seen.add(ss)
""")]},
    {'name': 'placeholder-indexed', 'expect': 'C15-R9',
     'edits': [E(I, "                if ss.id in freq[pos]:\n                    freq[pos][ss.id] += weight\n", "                freq[pos][ss.id] += weight\n")]},
    {'name': 'benign-entry-test-through-a-local', 'expect': 'silent',
     'edits': [E(I, "                if ss.id in freq[pos]:\n                    freq[pos][ss.id] += weight\n",
                 "                pos_freq = freq[pos]\n                if ss.id in pos_freq:\n                    pos_freq[ss.id] += weight\n")]},
    {'name': 'seen-shared-across-synsets', 'expect': 'C15-R1',
     'edits': [E(I, """        for synset in synsets:
            pos = synset.pos""", """        seen: set[Synset] = set()
        for synset in synsets:
            pos = synset.pos"""),
               E(I, """            agenda: list[Synset] = [synset]
            seen: set[Synset] = set()
""", """            agenda: list[Synset] = [synset]
""")]},
    {'name': 'seen-never-added', 'expect': ['C15-R1', 'C11-R1'],
     'edits': [E(I, "                seen.add(ss)\n", "")]},
    {'name': 'total-inside-walk', 'expect': 'C15-R3',
     'edits': [E(I, "                continue\n\n            freq[pos][None] += weight\n", "                continue\n\n"),
               E(I, "                freq[pos][ss.id] += weight\n", "                freq[pos][ss.id] += weight\n                freq[pos][None] += weight\n")]},
    {'name': 'satellite-not-folded', 'expect': 'C15-R2',
     'edits': [E(I, """            if pos == ADJ_SAT:
                pos = ADJ
            if pos not in IC_PARTS_OF_SPEECH:
                continue
""", """            if pos not in IC_PARTS_OF_SPEECH:
                continue
""")]},
    {'name': 'membership-test-after-total', 'expect': 'C15-R2',
     'edits': [E(I, """            if pos not in IC_PARTS_OF_SPEECH:
                continue

            freq[pos][None] += weight
""", """            freq[pos][None] += weight
            if pos not in IC_PARTS_OF_SPEECH:
                continue
""")]},
    {'name': 'index-by-synset-pos', 'expect': 'C15-R2',
     'edits': [E(I, "                freq[pos][ss.id] += weight\n", "                freq[ss.pos][ss.id] += weight\n")]},
    {'name': 'weight-not-distributed', 'expect': 'C15-R4',
     'edits': [E(I, "        weight = float(count / num if distribute_weight else count)", "        weight = float(count)")]},
    {'name': 'initialize-forgets-satellites', 'expect': 'C15-R5',
     'edits': [E(I, """    for synset in wordnet.synsets(pos=ADJ_SAT):
        freq[ADJ][synset.id] = smoothing
""", "")]},
    {'name': 'probability-without-total', 'expect': 'C15-R6',
     'edits': [E(I, "    return pos_freq[synset.id] / pos_freq[None]", "    return pos_freq[synset.id] / sum(v for k, v in pos_freq.items() if k is not None)")]},
    {'name': 'benign-visited-name', 'expect': 'silent',
     'edits': [E(I, """            seen: set[Synset] = set()
            while agenda:
                ss = agenda.pop()

                # add the weight to each ancestor only once, even if
                # several hypernym paths lead to it (this also avoids cycles)
                if ss in seen:
                    continue
                seen.add(ss)
""", """            done: set[Synset] = set()
            while agenda:
                ss = agenda.pop()
                if ss not in done:
                    done.add(ss)
                else:
                    continue
""")], 'xfail': 'else-continue form after the guarded add is not in the accepted idiom list (accumulation outside the if)'},
    {'name': 'benign-filter-at-push-and-test-at-pop', 'expect': 'silent', 'property': 'C15',
     'edits': [E(I, "                agenda.extend(hypernym_cache[ss])", "                agenda.extend(hyp for hyp in hypernym_cache[ss] if hyp not in seen)")]},
]
MUTANTS = [m for m in MUTANTS if 'xfail' not in m]
