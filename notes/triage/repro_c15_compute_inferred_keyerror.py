"""C15: ic.compute() on a wordnet with an expand lexicon raises KeyError when a hypernym reached through the expand lexicon has no
synset in the wordnet's own lexicon (an *INFERRED* placeholder synset is on the ancestor walk)."""
import sys, tempfile, pathlib, shutil
import wn, wn.ic
LEX = '''<?xml version="1.0" encoding="UTF-8"?>
<!DOCTYPE LexicalResource SYSTEM "http://globalwordnet.github.io/schemas/WN-LMF-1.0.dtd">
<LexicalResource xmlns:dc="http://purl.org/dc/elements/1.1/">
  <Lexicon id="piv" label="pivot" language="en" email="a@b" license="l" version="1">
    <LexicalEntry id="piv-e1"><Lemma writtenForm="a" partOfSpeech="n"/><Sense id="piv-s1" synset="piv-1"/></LexicalEntry>
    <LexicalEntry id="piv-e2"><Lemma writtenForm="b" partOfSpeech="n"/><Sense id="piv-s2" synset="piv-2"/></LexicalEntry>
    <LexicalEntry id="piv-e3"><Lemma writtenForm="c" partOfSpeech="n"/><Sense id="piv-s3" synset="piv-3"/></LexicalEntry>
    <Synset id="piv-1" ili="i1" partOfSpeech="n"><SynsetRelation relType="hypernym" target="piv-2"/></Synset>
    <Synset id="piv-2" ili="i2" partOfSpeech="n"><SynsetRelation relType="hypernym" target="piv-3"/></Synset>
    <Synset id="piv-3" ili="i3" partOfSpeech="n"/>
  </Lexicon>
  <Lexicon id="xx" label="other" language="xx" email="a@b" license="l" version="1">
    <LexicalEntry id="xx-e1"><Lemma writtenForm="u" partOfSpeech="n"/><Sense id="xx-s1" synset="xx-1"/></LexicalEntry>
    <LexicalEntry id="xx-e3"><Lemma writtenForm="w" partOfSpeech="n"/><Sense id="xx-s3" synset="xx-3"/></LexicalEntry>
    <Synset id="xx-1" ili="i1" partOfSpeech="n"/>
    <Synset id="xx-3" ili="i3" partOfSpeech="n"/>
  </Lexicon>
</LexicalResource>
'''
d = pathlib.Path(tempfile.mkdtemp(prefix='wnrepro-'))
try:
    (d / 'data').mkdir(); wn.config.data_directory = d / 'data'
    (d / 'src.xml').write_text(LEX, encoding='utf-8')
    wn.add(d / 'src.xml', progress_handler=None)
    w = wn.Wordnet('xx', expand='piv')
    print('hypernym paths of xx-1:', [[s.id for s in p] for p in w.synset('xx-1').hypernym_paths()])
    try:
        freq = wn.ic.compute(['u', 'u', 'w'], w)
        print({pos: dict(v) for pos, v in freq.items() if v})
        sys.exit(0)
    except Exception as exc:
        print(f'compute raised {type(exc).__name__}: {exc}')
        sys.exit(1)
finally:
    shutil.rmtree(d, ignore_errors=True)
