import tempfile, os
import wn
from wn.morphy import Morphy
d = tempfile.mkdtemp(); wn.config.data_directory = d
HEAD = '''<?xml version="1.0" encoding="UTF-8"?>
<!DOCTYPE LexicalResource SYSTEM "http://globalwordnet.github.io/schemas/WN-LMF-1.0.dtd">
<LexicalResource xmlns:dc="http://purl.org/dc/elements/1.1/">
<Lexicon id="d" label="D" language="en" email="a@b" license="x" version="1">
'''
ents=''; syns=''
for n in ['axis','ax','axe','axes','axi']:
    ents+=f'<LexicalEntry id="d-{n}"><Lemma writtenForm="{n}" partOfSpeech="n"/><Sense id="d-{n}-s" synset="d-{n}-ss"/></LexicalEntry>\n'
    syns+=f'<Synset id="d-{n}-ss" ili="" partOfSpeech="n"/>\n'
p=os.path.join(d,'d.xml'); open(p,'w').write(HEAD+ents+syns+'</Lexicon></LexicalResource>')
wn.add(p, progress_handler=None)
w=wn.Wordnet('d', lemmatizer=Morphy())
print([s.id for s in w.senses('axes')], [s.id for s in w.synsets('axes')], [s.id for s in w.words('axes')])
