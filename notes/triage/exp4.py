import tempfile, os
import wn, wn.ic
d = tempfile.mkdtemp(); wn.config.data_directory = d
HEAD = '''<?xml version="1.0" encoding="UTF-8"?>
<!DOCTYPE LexicalResource SYSTEM "http://globalwordnet.github.io/schemas/WN-LMF-1.0.dtd">
<LexicalResource xmlns:dc="http://purl.org/dc/elements/1.1/">
<Lexicon id="d" label="D" language="en" email="a@b" license="x" version="1">
'''
ents=''; syns=''
edges={'a':['b','c'],'b':['t'],'c':['t'],'t':[]}
for n in edges:
    ents+=f'<LexicalEntry id="d-{n}"><Lemma writtenForm="{n}" partOfSpeech="n"/><Sense id="d-{n}-s" synset="d-{n}-ss"/></LexicalEntry>\n'
    rels=''.join(f'<SynsetRelation relType="hypernym" target="d-{h}-ss"/>' for h in edges[n])
    syns+=f'<Synset id="d-{n}-ss" ili="" partOfSpeech="n">{rels}</Synset>\n'
p=os.path.join(d,'d.xml'); open(p,'w').write(HEAD+ents+syns+'</Lexicon></LexicalResource>')
wn.add(p, progress_handler=None)
w=wn.Wordnet('d')
f=wn.ic.compute(['a'], w, smoothing=1.0)
print({k:v for k,v in f['n'].items()})
t=w.synset('d-t-ss'); print('P(top)=', wn.ic.synset_probability(t,f), 'keys order', list(f))
