import tempfile, os
import wn
d = tempfile.mkdtemp(); wn.config.data_directory = d
HEAD11 = '''<?xml version="1.0" encoding="UTF-8"?>
<!DOCTYPE LexicalResource SYSTEM "http://globalwordnet.github.io/schemas/WN-LMF-1.1.dtd">
<LexicalResource xmlns:dc="https://globalwordnet.github.io/schemas/dc/">
'''
def w(name, s):
    p=os.path.join(d,name); open(p,'w',encoding='utf-8').write(s); return p
doc3 = HEAD11 + '''<Lexicon id="k" label="K" language="en" email="a@b" license="x" version="1">
<LexicalEntry id="k-w1"><Lemma writtenForm="cat" partOfSpeech="n"/><Sense id="k-s1" synset="k-ss1"/></LexicalEntry>
<Synset id="k-ss1" ili=""/>
</Lexicon></LexicalResource>'''
try:
    wn.add(w('k.xml',doc3), progress_handler=None); print('added synset w/o pos; pos =', repr(wn.synset('k-ss1').pos))
except Exception as e: print('add synset w/o partOfSpeech raised', type(e).__name__, e)
doc4 = HEAD11 + '''<Lexicon id="m" label="M" language="en" email="a@b" license="x" version="1">
<LexicalEntry id="m-w1"><Lemma writtenForm="cat" partOfSpeech="v"/><Sense id="m-s1" synset="m-ss1"/></LexicalEntry>
<Synset id="m-ss1" ili="" partOfSpeech="v"/>
<SyntacticBehaviour subcategorizationFrame="Somebody ----s" senses="m-s1"/>
</Lexicon></LexicalResource>'''
try:
    wn.add(w('m.xml',doc4), progress_handler=None); print('added frame w/o id; frames =', wn.sense('m-s1').frames())
except Exception as e: print('add frame w/o id raised', type(e).__name__, e)
