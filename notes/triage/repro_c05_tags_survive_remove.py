"""C05 on the pinned tree: a <Tag> (or <Pronunciation>) that a lexicon extension puts on an external lemma/form is stored
on the BASE lexicon's form row (tags/pronunciations have no lexicon_rowid), so it survives remove(<extension>):
the database after add(base); add(ext); remove(ext) differs from a fresh add(base).
run: PYTHONPATH=/repo /venv/bin/python notes/triage/repro_c05_tags_survive_remove.py   (exit 1 = defect present)"""
import shutil
import sys
import tempfile
import wn

d = tempfile.mkdtemp(prefix='wnv-c05-')
try:
    wn.config.data_directory = d
    wn.add('/repo/tests/data/mini-lmf-1.0.xml', progress_handler=None)
    before = wn.Wordnet('test-en:1').word('test-en-exemplify-v').lemma().tags()
    wn.add('/repo/tests/data/mini-lmf-1.1.xml', progress_handler=None)
    wn.remove('test-en-ext:1', progress_handler=None)
    after = wn.Wordnet('test-en:1').word('test-en-exemplify-v').lemma().tags()
    print('tags of the base lemma before adding the extension:', before)
    print('tags after add(ext); remove(ext):', after)
    sys.exit(0 if before == after else 1)
finally:
    shutil.rmtree(d, ignore_errors=True)
