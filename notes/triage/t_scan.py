import tempfile, os
from wn import lmf
import wn
print(wn.__file__)
d=tempfile.mkdtemp()
HEAD = '''<?xml version="1.0" encoding="UTF-8"?>
<!DOCTYPE LexicalResource SYSTEM "http://globalwordnet.github.io/schemas/WN-LMF-1.1.dtd">
<LexicalResource xmlns:dc="https://globalwordnet.github.io/schemas/dc/">
'''
for label in ["Bob's &amp; Co", "a > b", 'say &quot;hi&quot;', "tab&#9;x", "plain"]:
    for q in '"', "'":
        if q in label: continue
        doc = HEAD + f'<Lexicon id={q}q{q} label={q}{label}{q} language="en" email="a@b" license="x" version = {q}1.0+x{q}>\n</Lexicon></LexicalResource>'
        p=os.path.join(d,'q.xml'); open(p,'w').write(doc)
        s=lmf.scan_lexicons(p)[0]; l=lmf.load(p,progress_handler=None)['lexicons'][0]
        assert (s['id'],s['version'],s['label'])==(l['id'],l['version'],l['label']), (s,l['label'])
        o=os.path.join(d,'o.xml'); lmf.dump({'lmf_version':'1.1','lexicons':[l]}, o)
        s2=lmf.scan_lexicons(o)[0]; assert s2['label']==l['label'], (s2, l['label'])
print('scan==load OK')
