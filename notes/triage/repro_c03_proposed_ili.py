import tempfile, os
import wn
from wn import lmf
d = tempfile.mkdtemp(); wn.config.data_directory = d
doc = '''<?xml version="1.0" encoding="UTF-8"?>
<!DOCTYPE LexicalResource SYSTEM "http://globalwordnet.github.io/schemas/WN-LMF-1.0.dtd">
<LexicalResource xmlns:dc="http://purl.org/dc/elements/1.1/">
<Lexicon id="p" label="P" language="en" email="a@b" license="x" version="1">
<LexicalEntry id="p-w1"><Lemma writtenForm="cat" partOfSpeech="n"/><Sense id="p-s1" synset="p-ss1"/></LexicalEntry>
<Synset id="p-ss1" ili="in" partOfSpeech="n"/>
</Lexicon></LexicalResource>'''
p = os.path.join(d, 'p.xml'); open(p, 'w').write(doc)
wn.add(p, progress_handler=None)
assert wn.synset('p-ss1').ili.status == 'proposed'
out = os.path.join(d, 'out.xml')
wn.export(wn.lexicons(lexicon='p'), out)
ss = lmf.load(out, progress_handler=None)['lexicons'][0]['synsets'][0]
assert ss['ili'] == 'in', f"exported ili={ss['ili']!r}: the proposed ILI (without definition) is lost by export"
print('ok')
