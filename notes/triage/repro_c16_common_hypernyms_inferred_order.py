"""C16: common_hypernyms() returns inferred synsets (all with the same placeholder rowid) in set-iteration order,
which depends on PYTHONHASHSEED.  usage: repro.py            -> runs itself under several hash seeds and compares"""
import os, sys, subprocess, tempfile, pathlib, shutil

LEX = '''<?xml version="1.0" encoding="UTF-8"?>
<!DOCTYPE LexicalResource SYSTEM "http://globalwordnet.github.io/schemas/WN-LMF-1.0.dtd">
<LexicalResource xmlns:dc="http://purl.org/dc/elements/1.1/">
  <Lexicon id="piv" label="pivot" language="en" email="a@b" license="l" version="1">
    <LexicalEntry id="piv-e1"><Lemma writtenForm="a" partOfSpeech="n"/><Sense id="piv-s1" synset="piv-1"/></LexicalEntry>
    <LexicalEntry id="piv-e2"><Lemma writtenForm="b" partOfSpeech="n"/><Sense id="piv-s2" synset="piv-2"/></LexicalEntry>
    <LexicalEntry id="piv-e3"><Lemma writtenForm="c" partOfSpeech="n"/><Sense id="piv-s3" synset="piv-3"/></LexicalEntry>
    <LexicalEntry id="piv-e4"><Lemma writtenForm="d" partOfSpeech="n"/><Sense id="piv-s4" synset="piv-4"/></LexicalEntry>
    <LexicalEntry id="piv-e5"><Lemma writtenForm="e" partOfSpeech="n"/><Sense id="piv-s5" synset="piv-5"/></LexicalEntry>
    <LexicalEntry id="piv-e6"><Lemma writtenForm="f" partOfSpeech="n"/><Sense id="piv-s6" synset="piv-6"/></LexicalEntry>
    <Synset id="piv-1" ili="i1" partOfSpeech="n"><SynsetRelation relType="hypernym" target="piv-3"/></Synset>
    <Synset id="piv-2" ili="i2" partOfSpeech="n"><SynsetRelation relType="hypernym" target="piv-3"/></Synset>
    <Synset id="piv-3" ili="i3" partOfSpeech="n"><SynsetRelation relType="hypernym" target="piv-4"/></Synset>
    <Synset id="piv-4" ili="i4" partOfSpeech="n"><SynsetRelation relType="hypernym" target="piv-5"/></Synset>
    <Synset id="piv-5" ili="i5" partOfSpeech="n"><SynsetRelation relType="hypernym" target="piv-6"/></Synset>
    <Synset id="piv-6" ili="i6" partOfSpeech="n"/>
  </Lexicon>
  <Lexicon id="xx" label="other" language="xx" email="a@b" license="l" version="1">
    <LexicalEntry id="xx-e1"><Lemma writtenForm="u" partOfSpeech="n"/><Sense id="xx-s1" synset="xx-1"/></LexicalEntry>
    <LexicalEntry id="xx-e2"><Lemma writtenForm="v" partOfSpeech="n"/><Sense id="xx-s2" synset="xx-2"/></LexicalEntry>
    <Synset id="xx-1" ili="i1" partOfSpeech="n"/>
    <Synset id="xx-2" ili="i2" partOfSpeech="n"/>
  </Lexicon>
</LexicalResource>
'''

def child():
    import wn, wn.taxonomy
    wn.config.data_directory = sys.argv[2]
    w = wn.Wordnet('xx', expand='piv')
    a, b = w.synset('xx-1'), w.synset('xx-2')
    res = wn.taxonomy.common_hypernyms(a, b)
    print([ss._ili for ss in res])

if len(sys.argv) > 1 and sys.argv[1] == 'child':
    child()
    sys.exit(0)

d = pathlib.Path(tempfile.mkdtemp(prefix='wnrepro-'))
try:
    (d / 'data').mkdir()
    src = d / 'src.xml'
    src.write_text(LEX, encoding='utf-8')
    import wn
    wn.config.data_directory = d / 'data'
    wn.add(src, progress_handler=None)
    outs = set()
    for seed in range(12):
        env = dict(os.environ, PYTHONHASHSEED=str(seed))
        out = subprocess.run([sys.executable, __file__, 'child', str(d / 'data')], env=env, capture_output=True, text=True)
        if out.returncode:
            print(out.stderr)
        outs.add(out.stdout.strip())
    for o in sorted(outs):
        print(o)
    print('distinct results over 12 hash seeds:', len(outs))
    sys.exit(0 if len(outs) == 1 else 1)
finally:
    shutil.rmtree(d, ignore_errors=True)
