import tempfile, os
import wn
d = tempfile.mkdtemp(); wn.config.data_directory = d
HEAD = '''<?xml version="1.0" encoding="UTF-8"?>
<!DOCTYPE LexicalResource SYSTEM "http://globalwordnet.github.io/schemas/WN-LMF-1.0.dtd">
<LexicalResource xmlns:dc="http://purl.org/dc/elements/1.1/">
'''
def lex(id, ver):
    p = os.path.join(d, f'{id}-{ver}.xml')
    open(p, 'w').write(HEAD + f'<Lexicon id="{id}" label="L" language="en" email="a@b" license="x" version="{ver}">'
                       f'<LexicalEntry id="{id}-w"><Lemma writtenForm="w" partOfSpeech="n"/><Sense id="{id}-s" synset="{id}-ss"/></LexicalEntry>'
                       f'<Synset id="{id}-ss" ili="" partOfSpeech="n"/></Lexicon></LexicalResource>')
    wn.add(p, progress_handler=None)
lex('a', '1.0'); lex('a', '2.0'); lex('a', '1.5')      # most recently added: a:1.5
selected = [l.specifier() for l in wn.lexicons(lexicon='a:1.5 a')]
assert sorted(set(selected)) == ['a:1.5'], selected
wn.remove('a:1.5 a', progress_handler=None)
left = sorted(l.specifier() for l in wn.lexicons())
assert left == ['a:1.0', 'a:2.0'], f"remove('a:1.5 a') must remove exactly what the specifier selects ({sorted(set(selected))}); left: {left}"
print('ok')
