"""C03 on the pinned tree: export() of a base lexicon includes the <Tag> (and <Pronunciation>) an installed extension put on
one of its forms (tags/pronunciations carry no lexicon_rowid and get_form_tags()/get_form_pronunciations() have no lexicon
filter) - re-importing the export gives a base lexicon that owns the extension's tag.
run: PYTHONPATH=/repo /venv/bin/python notes/triage/repro_c03_export_leaks_extension_tags.py   (exit 1 = defect present)"""
import os
import shutil
import sys
import tempfile
import wn
from wn import lmf

d = tempfile.mkdtemp(prefix='wnv-c03-')
try:
    wn.config.data_directory = d
    wn.add('/repo/tests/data/mini-lmf-1.0.xml', progress_handler=None)
    wn.add('/repo/tests/data/mini-lmf-1.1.xml', progress_handler=None)       # contains the extension test-en-ext of test-en:1
    out = os.path.join(d, 'export.xml')
    wn.export(wn.lexicons(lexicon="test-en:1"), out, version="1.0")
    res = lmf.load(out, progress_handler=None)
    tags = [(e['id'], t) for lex in res['lexicons'] for e in lex.get('entries', []) for t in e.get('lemma', {}).get('tags', [])]
    src = lmf.load('/repo/tests/data/mini-lmf-1.0.xml', progress_handler=None)
    src_tags = [(e['id'], t) for lex in src['lexicons'] if lex['id'] == 'test-en' for e in lex.get('entries', []) for t in e.get('lemma', {}).get('tags', [])]
    print('tags in the source of test-en:1 :', src_tags)
    print('tags in the export of test-en:1:', tags)
    sys.exit(0 if tags == src_tags else 1)
finally:
    shutil.rmtree(d, ignore_errors=True)
