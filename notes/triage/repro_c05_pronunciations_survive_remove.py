"""C05 on the pinned tree, pronunciations: same cause as repro_c05_tags_survive_remove.py.
run: PYTHONPATH=/repo /venv/bin/python notes/triage/repro_c05_pronunciations_survive_remove.py   (exit 1 = defect present)"""
import os
import shutil
import sys
import tempfile
import wn

EXT = '''<?xml version="1.0" encoding="UTF-8"?>
<!DOCTYPE LexicalResource SYSTEM "http://globalwordnet.github.io/schemas/WN-LMF-1.1.dtd">
<LexicalResource xmlns:dc="https://globalwordnet.github.io/schemas/dc/">
  <LexiconExtension id="px" label="px" language="en" email="a@b.c" license="l" version="1">
    <Extends id="test-en" version="1"/>
    <ExternalLexicalEntry id="test-en-information-n">
      <ExternalLemma>
        <Pronunciation variety="GB">infomeishn</Pronunciation>
      </ExternalLemma>
    </ExternalLexicalEntry>
  </LexiconExtension>
</LexicalResource>
'''
d = tempfile.mkdtemp(prefix='wnv-c05p-')
try:
    wn.config.data_directory = d
    wn.add('/repo/tests/data/mini-lmf-1.0.xml', progress_handler=None)
    get = lambda: [p.value for p in wn.Wordnet('test-en:1').word('test-en-information-n').lemma().pronunciations()]  # noqa: E731
    before = get()
    f = os.path.join(d, 'px.xml')
    open(f, 'w').write(EXT)
    wn.add(f, progress_handler=None)
    wn.remove('px:1', progress_handler=None)
    after = get()
    print('before:', before, ' after add(ext); remove(ext):', after)
    sys.exit(0 if before == after else 1)
finally:
    shutil.rmtree(d, ignore_errors=True)
