"""C02: text read under xml:space="preserve" is written by dump() without that attribute: on reload the text is whitespace-normalised,
so load(dump(R)) != R and dump(load(dump(R))) differs from dump(R)."""
import sys, tempfile, pathlib, shutil
import wn
from wn import lmf
SRC = '''<?xml version="1.0" encoding="UTF-8"?>
<!DOCTYPE LexicalResource SYSTEM "http://globalwordnet.github.io/schemas/WN-LMF-1.3.dtd">
<LexicalResource xmlns:dc="https://globalwordnet.github.io/schemas/dc/">
  <Lexicon id="t" label="t" language="en" email="a@b" license="l" version="1">
    <LexicalEntry id="t-e1"><Lemma writtenForm="poem" partOfSpeech="n"/><Sense id="t-s1" synset="t-1"/></LexicalEntry>
    <Synset id="t-1" ili="" partOfSpeech="n">
      <Definition xml:space="preserve">two  spaces and
a line break</Definition>
    </Synset>
  </Lexicon>
</LexicalResource>
'''
d = pathlib.Path(tempfile.mkdtemp(prefix='wnrepro-'))
try:
    (d / 'src.xml').write_text(SRC, encoding='utf-8')
    r1 = lmf.load(d / 'src.xml')
    lmf.dump(r1, d / 'out1.xml')
    r2 = lmf.load(d / 'out1.xml')
    lmf.dump(r2, d / 'out2.xml')
    d1 = r1['lexicons'][0]['synsets'][0]['definitions'][0]
    d2 = r2['lexicons'][0]['synsets'][0]['definitions'][0]
    print('loaded   :', d1)
    print('reloaded :', d2)
    same_bytes = (d / 'out1.xml').read_bytes() == (d / 'out2.xml').read_bytes()
    print('dump fixed point:', same_bytes)
    sys.exit(0 if d1 == d2 and same_bytes else 1)
finally:
    shutil.rmtree(d, ignore_errors=True)
