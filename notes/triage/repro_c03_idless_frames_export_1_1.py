"""C03: a lexicon added from a WN-LMF 1.0 file (frames have no id) cannot be exported as WN-LMF 1.1+"""
import sys, tempfile, pathlib, shutil
import wn
d = pathlib.Path(tempfile.mkdtemp(prefix='wnrepro-'))
try:
    (d / 'data').mkdir(); wn.config.data_directory = d / 'data'
    src = d / 'src.xml'
    src.write_text('''<?xml version="1.0" encoding="UTF-8"?>
<!DOCTYPE LexicalResource SYSTEM "http://globalwordnet.github.io/schemas/WN-LMF-1.0.dtd">
<LexicalResource xmlns:dc="http://purl.org/dc/elements/1.1/">
  <Lexicon id="t" label="t" language="en" email="a@b" license="l" version="1">
    <LexicalEntry id="t-e1"><Lemma writtenForm="run" partOfSpeech="v"/>
      <Sense id="t-s1" synset="t-ss1"/>
      <SyntacticBehaviour subcategorizationFrame="Somebody ----s" senses="t-s1"/>
      <SyntacticBehaviour subcategorizationFrame="Something ----s" senses="t-s1"/>
    </LexicalEntry>
    <Synset id="t-ss1" ili="" partOfSpeech="v"/>
  </Lexicon>
</LexicalResource>
''', encoding='utf-8')
    wn.add(src, progress_handler=None)
    print('frames before:', wn.senses('run')[0].frames())
    ok = True
    for v in ('1.0', '1.1', '1.3'):
        out = d / f'out-{v}.xml'
        try:
            wn.export(wn.lexicons(), out, version=v)
        except Exception as exc:
            print(f'export {v}: {type(exc).__name__}: {exc}')
            ok = False
            continue
        (d / f'data-{v}').mkdir(); wn.config.data_directory = d / f'data-{v}'
        wn.add(out, progress_handler=None)
        fr = wn.senses('run')[0].frames()
        print(f'export {v}: re-added frames:', fr)
        if sorted(fr) != ['Somebody ----s', 'Something ----s']:
            ok = False
        wn.config.data_directory = d / 'data'
    sys.exit(0 if ok else 1)
finally:
    shutil.rmtree(d, ignore_errors=True)
