"""closure() over expanded relations: two different inferred (placeholder) synsets share id '*INFERRED*',
so a closure that visits by `.id` stops at the second one."""
import tempfile, os, sys
import wn
wn.config.data_directory = tempfile.mkdtemp()
d = tempfile.mkdtemp()
def lex(id, synsets, rels):
    ss = ''
    for s, ili in synsets:
        r = ''.join(f'<SynsetRelation relType="hypernym" target="{id}-{t}-n"/>' for (a, t) in rels if a == s)
        ss += f'<Synset id="{id}-{s}-n" ili="{ili}" partOfSpeech="n">{r}</Synset>'
    ents = ''.join(f'<LexicalEntry id="{id}-w{s}"><Lemma writtenForm="{id}w{s}" partOfSpeech="n"/><Sense id="{id}-w{s}-s" synset="{id}-{s}-n"/></LexicalEntry>' for s, _ in synsets)
    return f'''<?xml version="1.0" encoding="UTF-8"?>
<!DOCTYPE LexicalResource SYSTEM "http://globalwordnet.github.io/schemas/WN-LMF-1.0.dtd">
<LexicalResource xmlns:dc="http://purl.org/dc/elements/1.1/">
<Lexicon id="{id}" label="{id}" language="en" email="a@b" license="x" version="1">{ents}{ss}</Lexicon></LexicalResource>'''
open(os.path.join(d, 'pv.xml'), 'w').write(lex('pv', [(1, 'i1'), (2, 'i2'), (3, 'i3'), (4, 'i4')], [(4, 3), (3, 2), (2, 1)]))
open(os.path.join(d, 'tg.xml'), 'w').write(lex('tg', [(4, 'i4'), (1, 'i1')], []))
wn.add(os.path.join(d, 'pv.xml'), progress_handler=None); wn.add(os.path.join(d, 'tg.xml'), progress_handler=None)
w = wn.Wordnet('tg:1', expand='pv:1')
s = w.synset('tg-4-n')
paths = [[(x.id, x.ili.id if x.ili else None) for x in p] for p in s.hypernym_paths()]
clo = [(x.id, x.ili.id if x.ili else None) for x in s.closure('hypernym')]
print('paths  ', paths)
print('closure', clo)
assert {i for _, i in clo} == {'i3', 'i2', 'i1'}, 'closure() lost entities reachable over hypernym'
