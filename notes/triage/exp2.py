import tempfile, os, sys, copy, json
import wn
from wn import lmf
import wn.validate
d = tempfile.mkdtemp(); wn.config.data_directory = d
def w(name, s):
    p=os.path.join(d,name); open(p,'w',encoding='utf-8').write(s); return p
HEAD11 = '''<?xml version="1.0" encoding="UTF-8"?>
<!DOCTYPE LexicalResource SYSTEM "http://globalwordnet.github.io/schemas/WN-LMF-1.1.dtd">
<LexicalResource xmlns:dc="https://globalwordnet.github.io/schemas/dc/">
'''
# C20: scan vs load on quoting/escapes
doc = HEAD11 + '''<Lexicon id="q" label="Bob's &amp; Co" language="en" email="a@b" license="x" version="1">
</Lexicon></LexicalResource>'''
p=w('q.xml',doc)
print('scan :', lmf.scan_lexicons(p))
print('load :', [(l['id'],l['version'],l['label']) for l in lmf.load(p,progress_handler=None)['lexicons']])
# dump output with apostrophe label
r=lmf.load(p,progress_handler=None); o=os.path.join(d,'o.xml'); lmf.dump(r,o)
print('scan of dump():', lmf.scan_lexicons(o))
# label with '>' 
doc2 = doc.replace("Bob's &amp; Co","a > b")
p2=w('q2.xml',doc2)
try: print('scan gt:', lmf.scan_lexicons(p2))
except Exception as e: print('scan gt raised', type(e).__name__, e)
print('load gt:', lmf.load(p2,progress_handler=None)['lexicons'][0]['label'])

# C01: synset without partOfSpeech, frame without id
doc3 = HEAD11 + '''<Lexicon id="k" label="K" language="en" email="a@b" license="x" version="1">
<LexicalEntry id="k-w1"><Lemma writtenForm="cat" partOfSpeech="n"/><Sense id="k-s1" synset="k-ss1"/></LexicalEntry>
<Synset id="k-ss1" ili=""/>
</Lexicon></LexicalResource>'''
try:
    wn.add(w('k.xml',doc3), progress_handler=None); print('added synset w/o pos')
except Exception as e: print('add synset w/o partOfSpeech raised', type(e).__name__, e)
doc4 = HEAD11 + '''<Lexicon id="m" label="M" language="en" email="a@b" license="x" version="1">
<LexicalEntry id="m-w1"><Lemma writtenForm="cat" partOfSpeech="v"/><Sense id="m-s1" synset="m-ss1"/></LexicalEntry>
<Synset id="m-ss1" ili="" partOfSpeech="v"/>
<SyntacticBehaviour subcategorizationFrame="Somebody ----s" senses="m-s1"/>
</Lexicon></LexicalResource>'''
try:
    wn.add(w('m.xml',doc4), progress_handler=None); print('added frame w/o id')
except Exception as e: print('add frame w/o id raised', type(e).__name__, e)
# C07: in-memory resource mutation via _collect_frames aliasing
doc5 = HEAD11 + '''<Lexicon id="n" label="N" language="en" email="a@b" license="x" version="1">
<LexicalEntry id="n-w1"><Lemma writtenForm="cat" partOfSpeech="v"/><Sense id="n-s1" synset="n-ss1" subcat="f1"/></LexicalEntry>
<Synset id="n-ss1" ili="" partOfSpeech="v"/>
<SyntacticBehaviour id="f1" subcategorizationFrame="Somebody ----s" senses="n-s1"/>
</Lexicon></LexicalResource>'''
res = lmf.load(w('n.xml',doc5), progress_handler=None)
before = copy.deepcopy(res)
wn.add_lexical_resource(res, progress_handler=None)
print('resource unchanged after add_lexical_resource:', res == before, res['lexicons'][0]['frames'])
print('frames of n-s1:', wn.sense('n-s1').frames())
# C18 validate KeyError
doc6 = HEAD11 + '''<Lexicon id="v" label="V" language="en" email="a@b" license="x" version="1">
<LexicalEntry id="v-w1"><Lemma writtenForm="cat" partOfSpeech="n"/><Sense id="v-s1" synset="v-ss1"/></LexicalEntry>
<Synset id="v-ss1" ili="" partOfSpeech="n"><SynsetRelation relType="hypernym" target="v-missing"/></Synset>
</Lexicon></LexicalResource>'''
lx = lmf.load(w('v.xml',doc6), progress_handler=None)['lexicons'][0]
try: print(list(wn.validate.validate(lx, progress_handler=None)))
except Exception as e: print('validate raised', type(e).__name__, e)
