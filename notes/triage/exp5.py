import tempfile, os
import wn
d = tempfile.mkdtemp(); wn.config.data_directory = d
R='/repo/tests/data/'
wn.add(R+'mini-lmf-1.0.xml', progress_handler=None)
ext = '''<?xml version="1.0" encoding="UTF-8"?>
<!DOCTYPE LexicalResource SYSTEM "http://globalwordnet.github.io/schemas/WN-LMF-1.1.dtd">
<LexicalResource xmlns:dc="https://globalwordnet.github.io/schemas/dc/">
<LexiconExtension id="x" label="X" language="en" email="a@b" license="x" version="1">
<Extends id="test-en" version="1"/>
<ExternalLexicalEntry id="test-en-sample-n">
  <Form writtenForm="sampel"/>
  <Sense id="x-sample-0001" synset="test-en-0001-n"/>
</ExternalLexicalEntry>
<LexicalEntry id="x-zork-n"><Lemma writtenForm="zork" partOfSpeech="n"/><Sense id="x-zork-s" synset="test-en-0004-n"/></LexicalEntry>
<ExternalSynset id="test-en-0001-n"/>
<ExternalSynset id="test-en-0004-n"/>
</LexiconExtension></LexicalResource>'''
w = wn.Wordnet('test-en:1')
def obs():
    return dict(forms=w.word('test-en-sample-n').forms(),
                words_sampel=[x.id for x in w.words('sampel')],
                senses_sampel=[x.id for x in w.senses('sampel')],
                synsets_sampel=[x.id for x in w.synsets('sampel')],
                synsets_zork=[x.id for x in w.synsets('zork')],
                w_synsets=[x.id for x in w.word('test-en-sample-n').synsets()])
a=obs()
p=os.path.join(d,'x.xml'); open(p,'w').write(ext); wn.add(p, progress_handler=None)
b=obs()
for k in a: print(k, 'SAME' if a[k]==b[k] else f'CHANGED {a[k]} -> {b[k]}')
