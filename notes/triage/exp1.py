import tempfile, os, sys, warnings
import wn
from wn import lmf
wn.config.allow_multithreading=False
d = tempfile.mkdtemp()
wn.config.data_directory = d

HEAD11 = '''<?xml version="1.0" encoding="UTF-8"?>
<!DOCTYPE LexicalResource SYSTEM "http://globalwordnet.github.io/schemas/WN-LMF-1.1.dtd">
<LexicalResource xmlns:dc="https://globalwordnet.github.io/schemas/dc/">
'''
def lexdoc(id, ver, body, label="L", extra=''):
    return HEAD11 + f'''<Lexicon id="{id}" label="{label}" language="en" email="a@b" license="x" version="{ver}" {extra}>
{body}
</Lexicon></LexicalResource>'''

body = '''
<LexicalEntry id="{p}-w1"><Lemma writtenForm="cat" partOfSpeech="n"/><Sense id="{p}-s1" synset="{p}-ss1"><SenseRelation relType="domain_topic" target="{p}-ss2"/><Example dc:source="src1">ex one</Example></Sense></LexicalEntry>
<LexicalEntry id="{p}-w2"><Lemma writtenForm="dog" partOfSpeech="n"/><Sense id="{p}-s2" synset="{p}-ss2" subcat="f1"/></LexicalEntry>
<Synset id="{p}-ss1" ili="i1" partOfSpeech="n"/>
<Synset id="{p}-ss2" ili="in" partOfSpeech="n"/>
<SyntacticBehaviour id="f1" subcategorizationFrame="Somebody ----s"/>
'''
def w(name, s):
    p=os.path.join(d,name); open(p,'w',encoding='utf-8').write(s); return p

# two versions of same lexicon id 'a' with same entity ids
p1 = w('a1.xml', lexdoc('a','1', body.format(p='a'), label="A one"))
p2 = w('a2.xml', lexdoc('a','2', body.format(p='a').replace('writtenForm="cat"','writtenForm="kitty"'), label="A two"))
p3 = w('ab.xml', lexdoc('ab','1', body.format(p='ab'), label="AB"))
wn.add(p1, progress_handler=None); wn.add(p2, progress_handler=None); wn.add(p3, progress_handler=None)
print('lexicons:', wn.lexicons())
print("bare 'a' ->", wn.lexicons(lexicon='a'), '(doc: most recently added = a:2)')
print("'a ab:*' ->", wn.lexicons(lexicon='a ab:*'), '(bare a should be exactly one)')
# C10: navigation in default mode with two versions
for s in wn.senses('kitty'):
    print('sense', s, 'lex', s.lexicon().specifier(), 'word lemma', s.word().lemma(), 'word lex', s.word().lexicon().specifier())
# C11: get_related_synsets
s = wn.sense('a-s1', lexicon='a:1')
print('relation decl domain_topic -> ss2; get_related_synsets():', s.get_related_synsets(), ' with arg:', s.get_related_synsets('domain_topic'))
# C10 eq/hash
from wn._core import Synset
x=Synset.empty('*INFERRED*', ili='i1'); y=Synset.empty('*INFERRED*', ili='i2')
print('empty eq', x==y, 'hash eq', hash(x)==hash(y))
# C03: export 1.1 subcat, example meta, proposed ili without def
out=os.path.join(d,'exp.xml')
wn.export(wn.lexicons(lexicon='ab:1'), out, version='1.1')
txt=open(out,encoding='utf-8').read()
print('subcat in 1.1 export:', 'subcat=' in txt, '| example meta exported:', 'src1' in txt, '| ili="in" kept:', 'ili="in"' in txt)
# C02 dump example meta
r=lmf.load(p3, progress_handler=None); lmf.dump(r, out); print('dump keeps Example dc:source:', 'src1' in open(out,encoding='utf-8').read())
