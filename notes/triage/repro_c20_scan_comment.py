import tempfile, os
import wn
from wn import lmf
d = tempfile.mkdtemp(); wn.config.data_directory = d
doc = '''<?xml version="1.0" encoding="UTF-8"?>
<!DOCTYPE LexicalResource SYSTEM "http://globalwordnet.github.io/schemas/WN-LMF-1.1.dtd">
<LexicalResource xmlns:dc="https://globalwordnet.github.io/schemas/dc/">
<Lexicon id="c" label="C" language="en" email="a@b" license="x" version="1">
<!-- <Extends id="other" version="9"/> was considered -->
<LexicalEntry id="c-w1"><Lemma writtenForm="cat" partOfSpeech="n"/><Sense id="c-s1" synset="c-ss1"/></LexicalEntry>
<Synset id="c-ss1" ili="" partOfSpeech="n"/>
</Lexicon></LexicalResource>'''
p = os.path.join(d, 'c.xml'); open(p, 'w').write(doc)
scan = [(i['id'], i['version'], i['extends']) for i in lmf.scan_lexicons(p)]
load = [(l['id'], l['version'], l.get('extends')) for l in lmf.load(p, progress_handler=None)['lexicons']]
assert scan == load, f'scan {scan} != load {load}'
wn.add(p, progress_handler=None)
assert [l.id for l in wn.lexicons()] == ['c']
print('ok')
