"""C13: simulate_root does not join the roots of two lexicons queried together (a base lexicon and its extension, or any two
lexicons of one Wordnet): the fake root takes the `_lexid` of the synset it is created for, Synset.__hash__ includes `_lexid`, so the
two '*ROOT*' synsets never meet in the set intersection of _shortest_hyp_paths / common_hypernyms."""
import sys, tempfile, pathlib, shutil
import wn, wn.taxonomy

BASE = '''<?xml version="1.0" encoding="UTF-8"?>
<!DOCTYPE LexicalResource SYSTEM "http://globalwordnet.github.io/schemas/WN-LMF-1.1.dtd">
<LexicalResource xmlns:dc="https://globalwordnet.github.io/schemas/dc/">
  <Lexicon id="b" label="base" language="en" email="a@b" license="l" version="1">
    <LexicalEntry id="b-e1"><Lemma writtenForm="thing" partOfSpeech="n"/><Sense id="b-s1" synset="b-1"/></LexicalEntry>
    <LexicalEntry id="b-e2"><Lemma writtenForm="idea" partOfSpeech="n"/><Sense id="b-s2" synset="b-2"/></LexicalEntry>
    <Synset id="b-1" ili="i1" partOfSpeech="n"/>
    <Synset id="b-2" ili="i2" partOfSpeech="n"/>
  </Lexicon>
</LexicalResource>
'''
EXT = '''<?xml version="1.0" encoding="UTF-8"?>
<!DOCTYPE LexicalResource SYSTEM "http://globalwordnet.github.io/schemas/WN-LMF-1.1.dtd">
<LexicalResource xmlns:dc="https://globalwordnet.github.io/schemas/dc/">
  <LexiconExtension id="x" label="ext" language="en" email="a@b" license="l" version="1">
    <Extends id="b" version="1"/>
    <LexicalEntry id="x-e1"><Lemma writtenForm="event" partOfSpeech="n"/><Sense id="x-s1" synset="x-1"/></LexicalEntry>
    <Synset id="x-1" ili="i3" partOfSpeech="n"/>
  </LexiconExtension>
</LexicalResource>
'''
d = pathlib.Path(tempfile.mkdtemp(prefix='wnrepro-'))
try:
    (d / 'data').mkdir()
    wn.config.data_directory = d / 'data'
    for name, text in (('b.xml', BASE), ('x.xml', EXT)):
        (d / name).write_text(text, encoding='utf-8')
        wn.add(d / name, progress_handler=None)
    w = wn.Wordnet('b:1 x:1')
    a, b2, x = w.synset('b-1'), w.synset('b-2'), w.synset('x-1')
    ok = True
    # two roots of one lexicon: joined by the fake root
    print('same lexicon  :', [s.id for s in wn.taxonomy.shortest_path(a, b2, simulate_root=True)])
    for s1, s2 in ((a, x), (x, a)):
        try:
            print('across lexicons:', [s.id for s in wn.taxonomy.shortest_path(s1, s2, simulate_root=True)])
        except wn.Error as exc:
            print('across lexicons: wn.Error:', exc)
            ok = False
        print('   common_hypernyms:', [s.id for s in wn.taxonomy.common_hypernyms(s1, s2, simulate_root=True)])
    sys.exit(0 if ok else 1)
finally:
    shutil.rmtree(d, ignore_errors=True)
