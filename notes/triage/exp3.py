import tempfile, os
import wn, wn.ic
from wn import lmf
d = tempfile.mkdtemp(); wn.config.data_directory = d
R='/repo/tests/data/'
wn.add(R+'mini-lmf-1.0.xml', progress_handler=None)
w = wn.Wordnet('test-en:1')
def obs():
    wd = w.word('test-en-exemplify-v')
    il = w.word('test-en-illustrate-v')
    return dict(tags=[(t.tag,t.category) for t in wd.lemma().tags()],
                forms=il.forms(),
                words_info=[x.id for x in w.words('info')],
                syn_fire=[s.id for s in w.synsets('fire')],
                hyper=[s.id for s in w.synset('test-en-0007-v').hypernyms()],
                senses=[s.id for s in w.synset('test-en-0001-n').senses()])
a = obs()
wn.add(R+'mini-lmf-1.1.xml', progress_handler=None)   # adds unselected extension test-en-ext
b = obs()
for k in a:
    print(k, 'SAME' if a[k]==b[k] else f'CHANGED {a[k]} -> {b[k]}')
